#!/bin/bash
# runs every registered quick (or thorough) check once; prints one summary line per property
# usage: run_all.sh [quick|thorough] [PROP...]   (VERIF_SEED is passed on as --seed when set)
tier=${1:-quick}; shift
props=${*:-C01 C02 C03 C04 C05 C06 C07 C08 C09 C10 C11 C12 C13 C14 C15 C16 C17 C18 C19 C20}
seed=${VERIF_SEED:+--seed $VERIF_SEED}
cd /verif
for p in $props; do
  s=$(date +%s)
  out=$(./check $p --tier $tier $seed 2>&1); code=$?
  e=$(( $(date +%s) - s ))
  echo "$p exit=$code ${e}s $(echo "$out" | grep -E "^C[0-9]+ (quick|thorough)" | cut -c1-150)"
  echo "$out" | grep -E "^(VIOLATION|INCONCLUSIVE|  clause)" | cut -c1-300 | head -6
done
