#!/bin/bash
# keep_seed.sh <worktree> <A|B> <seed-id> : copy a confirmed seeded change into /verif/seeded/<seed-id>/
wt=$1; v=$2; id=$3; d=$wt/deliver/$v; o=/verif/seeded/$id
mkdir -p $o
cp $d/patch.diff $o/patch.diff
cp $d/demo.diff $o/demo.diff
cp $d/README.md $o/README.md
cat $wt/deliver/verify_$v.txt $wt/deliver/verify2_$v.txt 2>/dev/null | sed "s#$wt#<worktree>#g" > $o/confirmation.txt
ls -la $o
