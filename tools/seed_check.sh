#!/bin/bash
# seed_check.sh <patch.diff> <PROP> [<PROP>...] : apply a seeded change to /repo, run the quick checks, undo it
patch=$1; shift
mkdir -p /verif/target; exec 9>/verif/target/.repo.lock; flock -x 9; export VERIF_REPO_LOCK_HELD=1
cd /repo && git status --short | grep -q . && { echo "/repo not clean"; exit 2; }
rm -rf /dev/shm/evidence.bak; cp -r /verif/evidence /dev/shm/evidence.bak
git apply "$patch" || { echo "patch does not apply to /repo"; exit 2; }
for p in "$@"; do
  s=$(date +%s)
  out=$(cd /verif && ./check $p --tier quick 2>&1); code=$?
  echo "== $p exit=$code $(( $(date +%s) - s ))s  $(echo "$out" | grep -E "^C[0-9]+ quick" | cut -c1-120)"
  echo "$out" | grep -E "^(VIOLATION|  clause|INCONCLUSIVE)" | cut -c1-260 | head -6
  echo "$out" | grep -A1 "^  clause" | grep -v "^  clause\|^--" | cut -c1-330 | head -2
done
git -C /repo checkout -- .
# evidence written while a seeded change was applied is not evidence about /repo: put the previous files back
rm -rf /verif/evidence; mv /dev/shm/evidence.bak /verif/evidence
