#!/usr/bin/env python3
"""seed_meta.py: writes /verif/seeded/<id>/meta.json from tools/seeds.json and regenerates /verif/seeded/INDEX.md"""
import json, os
S = json.load(open('/verif/tools/seeds.json'))
rows = []
for s in S:
    d = f"/verif/seeded/{s['id']}"
    if not os.path.isdir(d):
        continue
    conf = open(d + '/confirmation.txt').read() if os.path.exists(d + '/confirmation.txt') else ''
    meta = {
        'id': s['id'], 'property': s['property'], 'origin': s.get('origin', 'fresh sub-agent given only the property text and a scratch worktree'),
        'files_changed': s['files'], 'change': s['change'], 'clause_broken': s['breaks'], 'needs_to_manifest': s['needs'],
        'confirmed_by_me': {
            'how': 'tools/verify_seed.sh in the scratch worktree: (1) patch.diff applied, pinned suite via baseline_off.sh (guard off) -> 808/808 stable tests pass; (2) demo.diff applied, demonstration run with the change (must fail) and without it (must pass)',
            'transcript': conf.strip().splitlines(),
        },
        'my_checks': {'ran': s['ran'], 'caught_by': s['caught_by'], 'clauses': s.get('clauses', ''), 'missed_by': s.get('missed_by', []), 'strengthened': s.get('strengthened', '')},
    }
    json.dump(meta, open(d + '/meta.json', 'w'), indent=1)
    rows.append(s)
with open('/verif/seeded/INDEX.md', 'w') as f:
    f.write('# Seeded changes\n\nEach directory holds `patch.diff` (the change to iggy-rs/iggy; never committed to /repo), `demo.diff` + `README.md` (the demonstration written by its author), `confirmation.txt` (my own re-run in a scratch worktree: suite still 808/808 with the change, demo fails with it and passes without it) and `meta.json`.\n\nTo run a check against one: `tools/seed_check.sh seeded/<id>/patch.diff <PROP>` (applies to /repo, runs the quick tier, undoes it).\n\n')
    f.write('| id | property | change | needs, to manifest | caught by (quick tier) | first clause reported |\n|---|---|---|---|---|---|\n')
    for s in rows:
        f.write(f"| {s['id']} | {s['property']} | {s['change']} | {s['needs']} | {', '.join(s['caught_by']) or '**missed**'} | {s.get('clauses','')} |\n")
    missed = [s for s in rows if s.get('missed_by') or s.get('strengthened')]
    if missed:
        f.write('\n## Misses and what was strengthened\n\n')
        for s in missed:
            f.write(f"- **{s['id']}**: {s.get('strengthened','')}\n")
# condensed catch matrix into DESIGN.md section 12 (between the markers)
D = '/verif/DESIGN.md'
d = open(D).read()
b, e = '<!-- seed-matrix:begin -->', '<!-- seed-matrix:end -->'
if b in d and e in d:
    missed = [s for s in rows if s.get('missed_by')]
    still = [s for s in rows if s.get('still_missed')]
    t = [b, '', f'{len(rows)} confirmed changes; {len(rows) - len(missed)} were reported by the check of their own property as it stood when the change arrived, {len(missed) - len(still)} were missed at first and are reported after the strengthening described below, {len(still)} ({", ".join(x["id"] for x in still)}) still missed - arrived at the very end, recorded as open gap(s) with what closing takes.', '',
         '| change | breaks (needs) | reported by | first clause |', '|---|---|---|---|']
    for s in rows:
        star = ' **(after strengthening)**' if s.get('missed_by') and not s.get('still_missed') else ''
        t.append(f"| {s['id']} | {s['change']} *(needs: {s['needs']})* | {', '.join(s['caught_by']) or '**not reported (open gap)**'}{star} | {s.get('clauses','')} |")
    t += ['', '**Misses and what they changed in the machinery**', '']
    for s in missed:
        t.append(f"* **{s['id']}** - {s['strengthened']}")
    t += ['', e]
    d = d[:d.index(b)] + '\n'.join(t) + d[d.index(e) + len(e):]
    open(D, 'w').write(d)
print(len(rows), 'seeds')
