#!/bin/bash
# verify_seed.sh <worktree> <A|B>   (steps 1-2: existing suite passes with the change; demo fails with / passes without)
wt=$1; v=$2; d=$wt/deliver/$v
export CARGO_TARGET_DIR=$wt/target CARGO_NET_OFFLINE=true
cd $wt && git checkout -q -- . && git clean -qfd -e deliver -e target >/dev/null 2>&1
git apply $d/patch.diff || { echo "PATCH-DOES-NOT-APPLY"; exit 1; }
if [ -z "$SKIP_SUITE" ]; then BASELINE_LOG=$wt/deliver/$v/suite.log /verif/baseline_off.sh $wt > $d/suite_result.txt 2>&1; fi
echo "suite-with-change: $(tail -1 $d/suite_result.txt | head -1) $(grep -c MISSING $d/suite_result.txt) missing"
git apply $d/demo.diff || { echo "DEMO-DOES-NOT-APPLY"; git checkout -q -- .; exit 1; }
demo=${3:-$(grep -hoE "cargo test[^\`]*" $d/README.md | tail -1)}
echo "demo cmd: $demo"
(eval "$demo" > $d/demo_with.log 2>&1); echo "demo-with-change exit=$? $(grep -E "^test result" $d/demo_with.log | grep -v "0 passed; 0 failed" | tr "\n" " ")"
git apply -R $d/patch.diff
(eval "$demo" > $d/demo_without.log 2>&1); echo "demo-without-change exit=$? $(grep -E "^test result" $d/demo_without.log | grep -v "0 passed; 0 failed" | tr "\n" " ")"
git checkout -q -- . ; git clean -qfd -e deliver -e target >/dev/null 2>&1
