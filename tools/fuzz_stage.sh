#!/bin/bash
# fuzz_stage.sh <PROP> <target> <runs> <seed> : coverage-guided stage (libFuzzer via cargo-fuzz) behind a thorough check.
#   exit 0 = no crash (or stage skipped because the fuzz build is not possible here), exit 1 = VIOLATION printed
# fuzz_stage.sh --replay <PROP> <target> <file> : run the target once on a saved input
set -u
export CARGO_NET_OFFLINE=true
FD=/verif/fuzz
bin() { echo /verif/target/fuzz/x86_64-unknown-linux-gnu/release/$1; }
build() {
  (cd $FD && { [ -f Cargo.lock ] || cp /repo/Cargo.lock Cargo.lock 2>/dev/null; }; cargo +nightly fuzz build --fuzz-dir $FD "$1" > /verif/target/last_fuzz_build.log 2>&1)
}
if [ "$1" = "--replay" ]; then
  prop=$2; target=$3; file=$4
  build $target || { echo "INCONCLUSIVE: fuzz build failed (see /verif/target/last_fuzz_build.log)"; exit 2; }
  out=$($(bin $target) "$file" 2>&1); code=$?
  if [ $code -ne 0 ]; then
    echo "VIOLATION property=$prop replay=$file"
    echo "$out" | grep -E "panicked|$prop:" | head -3 | sed 's/^/  /'
    exit 1
  fi
  echo "replay passes: $file"; exit 0
fi
prop=$1; target=$2; runs=$3; seed=$4
mkdir -p /verif/target
if ! build $target; then
  echo "NOTE: fuzz stage $target skipped: cargo +nightly fuzz build failed here (see /verif/target/last_fuzz_build.log)"
  exit 0
fi
work=/dev/shm/iggy-verif-fuzzstage-$$; mkdir -p $work/corpus $work/art
/verif/target/debug/vcheck --dump-journals $work/corpus 40 >/dev/null 2>&1
log=$work/run.log
$(bin $target) $work/corpus -runs=$runs -seed=$seed -max_len=4096 -rss_limit_mb=4000 -artifact_prefix=$work/art/ -print_final_stats=1 > $log 2>&1
code=$?
execs=$(grep -o "number_of_executed_units: [0-9]*" $log | grep -o "[0-9]*$" | tail -1)
cov=$(grep -o "cov: [0-9]*" $log | tail -1 | grep -o "[0-9]*")
corp=$(grep -o "corp: [0-9]*" $log | tail -1 | grep -o "[0-9]*")
art=$(ls $work/art 2>/dev/null | head -1)
rc=0
if [ -n "$art" ]; then
  mkdir -p /verif/replays/$prop
  dst=/verif/replays/$prop/fuzz-$target-$(echo $art | cut -c1-22).bin
  cp $work/art/$art $dst
  # a crash counts only if it reproduces from the saved input alone
  if ! $(bin $target) $dst > $work/re.log 2>&1; then
    echo "VIOLATION property=$prop replay=$dst"
    grep -E "panicked|$prop:" $log | head -3 | sed 's/^/  /'
    rc=1
  else
    echo "INCONCLUSIVE: a libFuzzer crash of $target did not reproduce from its saved input $dst"
    rc=2
  fi
elif [ $code -ne 0 ]; then
  echo "INCONCLUSIVE: libFuzzer stage $target ended with exit $code without an artifact (see $log)"; rc=2
fi
echo "fuzz stage $target: ${execs:-0} executions, coverage ${cov:-?} edges, corpus ${corp:-?} inputs, seed $seed, $( [ $rc -eq 0 ] && echo "no crash" || echo "exit $rc")"
python3 - "$prop" "$target" "${execs:-0}" "${cov:-0}" "${corp:-0}" "$rc" <<'PY'
import json,sys
prop,target,execs,cov,corp,rc=sys.argv[1:]
p=f'/verif/evidence/{prop}.json'
try:
    e=json.load(open(p))
    c=e.setdefault('coverage',{}).setdefault('counters',{})
    c[f'libfuzzer_{target}_executions']=int(execs); c[f'libfuzzer_{target}_edges_covered']=int(cov); c[f'libfuzzer_{target}_corpus_inputs']=int(corp)
    a=e.setdefault('assumptions',[])
    note=f'coverage-guided stage: libFuzzer target {target} (arbitrary bytes as a journal file, seed corpus of 40 valid journals) with the round-trip oracle of /verif/fuzz/fuzz_targets/{target}.rs; inputs declaring lengths above 1 MiB are skipped'
    if note not in a: a.append(note)
    json.dump(e,open(p,'w'),indent=1)
except Exception as ex:
    print('NOTE: evidence not updated:',ex)
PY
[ $rc -eq 0 ] && rm -rf $work
exit $rc
