#!/usr/bin/env python3
"""Writes /verif/MANIFEST.json from the table below (kept in one place so the manifest
stays valid and in step with harness/src/plan.rs)."""
import json, subprocess

HOOK_COMMITS = subprocess.run(
    ["git", "-C", "/repo", "log", "--format=%h %s", "--grep=^verif hook"],
    capture_output=True, text=True).stdout.strip().splitlines()

CLAIMED = {
 "C01": ("5-C01", "model-based stateful PBT (proptest): generated send/flush/save/restart/purge/retention histories under generated storage configs, full read vs. reference model after every accepted send",
         "Randomised exploration of histories x configurations with an independent per-partition offset model; every accepted send is followed by a full read that must list each accepted offset exactly once with the sent content, and rejected / duplicate sends must consume no offset. Right level: the property quantifies over unbounded histories; exhaustive enumeration is impossible, absence is not claimed."),
 "C02": ("5-C02", "model-based stateful PBT with polls interleaved at every position + differential over message-cache modes (worker processes off/big/tiny) and index cache; retention passes at low weight so that 'retained' also means a log whose head was removed; batches above 2 MiB",
         "Every generated poll (offset/timestamp/first/last/next, boundary offsets, counts) is compared element-wise (offset,id,payload,headers,checksum via independent CRC32,timestamp under a frozen clock) with the model slice; label counters show how many polls spanned disk+buffer, several segments, later segments, restart+append."),
 "C03": ("5-C03", "model-based stateful PBT with 1..n clean restarts at arbitrary positions (incl. index files removed), traffic continuing after each restart",
         "Snapshot-before vs. after-restart comparison through the model: after every restart every partition is fully re-read and must equal what was accepted; subsequent sends must continue at the next offset."),
 "C14": ("5-C14", "model-based stateful PBT with a harness-controlled clock (hook H2) and deterministic maintenance passes (hook H3); validity predicate over the set of deleted messages",
         "For each generated maintenance pass the deleted set must be a union of whole closed segments whose newest message is expired under the model's timestamps; offsets, remaining content, below-earliest polls and restart-after-pass are checked."),
 "C15": ("5-C15", "model-based stateful PBT over size limits / delete-oldest settings; accept-refuse oracle keyed on the size the server itself reports; rotation-unchanged-by-refused-sends relation; sibling topic with data in the same stream",
         "Sends attempted while the reported topic size is at/above the limit must be refused iff deletion of oldest segments is disabled; clean-up may only remove the oldest closed segment per partition and only from a topic that is itself almost full (whatever sibling topics hold); a refused send changes nothing, the balanced rotation included; limits below one segment must be rejected."),
 "C16": ("5-C16", "model-based stateful PBT; counters compared after every step with the model (counts) and differentially before/after restart (sizes), with a sibling topic and a sibling stream (sums over topics and streams), encryption on/off; plus the catalogue engine's statistics comparison after every command over a changing catalogue",
         "Partition/topic/stream/stats message counts and segment/partition counts must equal the model after every step; sizes must be sums of their parts, zero for empty entities, never wrapped, and identical before and after a clean restart following a full flush; a stream must equal the sum over its topics and the statistics the sums over all streams, with exact stream / topic / partition / segment / group counts (topics without partitions included)."),
 "C17": ("5-C17", "model-based stateful PBT with metamorphic key-stability relation and rotation-window validity predicate, 1..12 partitions changing over time",
         "Explicit partition: stored exactly there or refused with nothing stored; key: same (key,count) => same partition also across restart, never recomputing the hash; balanced: any count consecutive sends hit count distinct partitions; every send lands in exactly one partition."),
 "C18": ("5-C18", "model-based stateful PBT with a seen-id set per partition; repeats within a batch, across batches, across flush and restart; dedup off as control",
         "The kept/dropped decision for every message of every batch must equal the model's first-occurrence rule, dropped messages consume no offset, distinct ids are never dropped, and with dedup off everything is stored."),
 "C19": ("5-C19", "model-based stateful PBT with encryption on + byte search of every file for every sent payload (>=8 bytes) + restarts under the same / another key; component-level round-trip / tamper / truncation PBT on the SDK's AES-256-GCM encryptor",
         "Polled payloads equal sent payloads; no payload occurs in clear in any file under the data directory; restart with another key must refuse to start or deliver nothing; restart with the right key restores everything. Component level: decrypt(encrypt(x)) == x for every length incl. 0, another key rejects, every changed or truncated ciphertext is an error, nothing panics."),
}

NOT_YET = {
 "C04": "check not built yet (crash-image engine pending in this build session)",
 "C05": "check not built yet (catalogue engine pending)",
 "C06": "check not built yet (catalogue engine pending)",
 "C07": "check not built yet (offsets engine pending)",
 "C08": "check not built yet (groups engine pending)",
 "C09": "check not built yet (permission engine pending)",
 "C10": "check not built yet (credentials engine pending)",
 "C11": "check not built yet (journal engine pending)",
 "C12": "check not built yet (concurrency engine pending)",
 "C13": "check not built yet (wire engine pending)",
 "C20": "check not built yet (SDK client engine pending)",
}

def load_overrides():
    try:
        return json.load(open('/verif/tools/manifest_extra.json'))
    except Exception:
        return {"claimed": {}, "engines": []}

extra = load_overrides()
for k, v in extra.get("claimed", {}).items():
    CLAIMED[k] = tuple(v)
    NOT_YET.pop(k, None)

checks = []
for pid in sorted(CLAIMED):
    ref, technique, text = CLAIMED[pid][:3]
    category = CLAIMED[pid][3] if len(CLAIMED[pid]) > 3 else "exploration"
    checks.append({
        "property_id": pid,
        "quick_cmd": f"./check {pid} --tier quick",
        "thorough_cmd": f"./check {pid} --tier thorough",
        "evidence_file": f"/verif/evidence/{pid}.json",
        "replay_cmd_template": f"./check {pid} --replay {{path}}",
        "engine": "vcheck",
        "level_claimed": {"category": category, "text": text, "design_ref": ref},
        "level_note": "Trusted base: the harness's reference models and generators (/verif/harness/src), proptest 1.11, the in-process embedding of the server (System + TCP/HTTP listeners on a private tokio runtime; restart = shutdown() then runtime drop), hooks H1-H6 (feature iggy_verif). Randomised search: a green run means no counterexample among the generated cases, not absence.",
        "technique": technique,
    })

manifest = {
    "version": 1,
    "setup_cmd": "cd /verif/harness && CARGO_NET_OFFLINE=true cargo build",
    "hooks": {
        "guard": "cargo feature iggy_verif (on crates iggy [sdk] and server; server/iggy_verif enables iggy/iggy_verif); off by default",
        "enable": "the harness crate /verif/harness depends by path on /repo/server (default-features=false, features disable-mimalloc + iggy_verif) and /repo/sdk (feature iggy_verif); every ./check run does `cargo build` first, which recompiles /repo's working tree",
        "baseline_off_cmd": "/verif/baseline_off.sh",
        "source_commits": HOOK_COMMITS,
        "add_only": True,
    },
    "engines": [
        {"name": "vcheck", "path": "/verif/harness", "serves_properties": sorted(CLAIMED),
         "kind_free_text": "Rust binary: coordinator + worker processes; proptest TestRunner per worker (seed derived from VERIF_SEED), model-based interpreters against the real server embedded in-process; strict replay of saved cases; regression corpus under /verif/regressions"},
    ] + extra.get("engines", []),
    "checks": checks,
    "notes": "Exit codes of every check: 0 = held on everything explored (KNOWN-FINDING lines possible), 1 = VIOLATION line(s), 2 = inconclusive (build failure, watchdog, non-reproducible failure). Known findings: /verif/known_findings.json. Seeded mutations used to test the checks: /verif/seeded/.",
    "not_applicable": [{"property_id": k, "reason": v} for k, v in sorted(NOT_YET.items())],
}
json.dump(manifest, open('/verif/MANIFEST.json', 'w'), indent=1)
print("claimed:", sorted(CLAIMED), "not claimed:", sorted(NOT_YET))
