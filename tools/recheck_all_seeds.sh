#!/bin/bash
# recheck_all_seeds.sh [ids...]: runs the quick tier of each seeded change's own property against it (tools/seed_check.sh)
# and prints one line per seed: CAUGHT / MISSED
cd /verif
ids=${*:-$(python3 -c "
import json
print(' '.join(s['id'] for s in json.load(open('/verif/tools/seeds.json'))))")}
for id in $ids; do
  prop=${id%%-*}
  out=$(tools/seed_check.sh /verif/seeded/$id/patch.diff $prop 2>&1)
  line=$(echo "$out" | grep "^== " | head -1 | cut -c1-110)
  if echo "$out" | grep -q "^VIOLATION"; then v=CAUGHT; else v=MISSED; fi
  echo "$id $v $line | $(echo "$out" | grep "^  clause" | head -1 | cut -c1-90)"
done
