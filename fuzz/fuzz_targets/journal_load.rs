//! libFuzzer target for C11 (tamper evidence of the state journal), complementing the mutation-based
//! `journal-tamper` check: ARBITRARY bytes as a journal file.
//! Oracle: FileState::init never panics; if it answers Ok(entries), the entries re-encoded with the server's
//! own encoder are exactly a byte prefix of the file and their indices are 0, 1, 2, ... (what the loader
//! accepts is a well-formed journal, nothing else); anything after that prefix must have made it answer Err
//! unless the accepted prefix is the whole file.
#![no_main]
use iggy::bytes_serializable::BytesSerializable;
use libfuzzer_sys::fuzz_target;
use server::state::file::FileState;
use server::state::State;
use server::streaming::persistence::persister::{FilePersister, PersisterKind};
use server::versioning::SemanticVersion;
use std::sync::{Arc, OnceLock};

static RT: OnceLock<tokio::runtime::Runtime> = OnceLock::new();
static DIR: OnceLock<String> = OnceLock::new();

/// reference walk over the documented layout: false if some declared length exceeds 1 MiB (the loader
/// allocates the declared length before reading - DESIGN.md section 7 - so such inputs only measure memory)
fn lengths_sane(b: &[u8]) -> bool {
    let mut at = 0usize;
    let fixed = 8 + 8 + 4 + 4 + 8 + 8 + 4 + 4; // index term leader version flags timestamp user checksum
    while at + fixed + 4 <= b.len() {
        let ctx = u32::from_le_bytes(b[at + fixed..at + fixed + 4].try_into().unwrap()) as usize;
        if ctx > (1 << 20) {
            return false;
        }
        let p = at + fixed + 4 + ctx;
        if p + 4 > b.len() {
            return true;
        }
        // code (4 bytes) then command length
        if p + 8 > b.len() {
            return true;
        }
        let cmd = u32::from_le_bytes(b[p + 4..p + 8].try_into().unwrap()) as usize;
        if cmd > (1 << 20) {
            return false;
        }
        at = p + 8 + cmd;
    }
    true
}

fuzz_target!(|data: &[u8]| {
    if data.len() > 1 << 16 || !lengths_sane(data) {
        return;
    }
    let rt = RT.get_or_init(|| tokio::runtime::Builder::new_current_thread().enable_all().build().unwrap());
    let dir = DIR.get_or_init(|| {
        let d = format!("/dev/shm/iggy-verif-fuzz-{}", std::process::id());
        std::fs::create_dir_all(&d).unwrap();
        d
    });
    let path = format!("{dir}/log");
    std::fs::write(&path, data).unwrap();
    let fs = FileState::new(&path, &SemanticVersion::current().unwrap(), Arc::new(PersisterKind::File(FilePersister)), None);
    let r = rt.block_on(async { fs.init().await });
    if let Ok(entries) = r {
        let mut enc: Vec<u8> = vec![];
        for (i, e) in entries.iter().enumerate() {
            assert_eq!(e.index, i as u64, "C11: accepted entries do not carry consecutive indices from 0");
            enc.extend_from_slice(&e.to_bytes());
        }
        assert!(enc.len() <= data.len() && data[..enc.len()] == enc[..], "C11: the accepted entries are not a byte prefix of the file");
        assert!(enc.len() == data.len(), "C11: the loader answered Ok although {} bytes behind the accepted entries are not an entry", data.len() - enc.len());
    }
});
