// included into catalogue.rs: the interpreter proper

#[derive(Debug, Clone, Copy, PartialEq)]
enum Exp {
    Ok,
    Err,
    Either,
}

fn valid_name(n: &str) -> bool {
    !n.is_empty() && n.len() <= 255
}

impl<'a> Interp<'a> {
    pub fn run_case(&mut self) -> Check {
        let _ = take_panics();
        self.users.insert(1, MUser { id: 1, name: "iggy".into(), password: "iggy".into(), active: true, perms: None });
        self.start()?;
        self.connect()?;
        let ops = self.case.ops.clone();
        let mut acked = 0u32;
        let mut refused_then_ok = false;
        let mut refused = false;
        for (i, op) in ops.iter().enumerate() {
            self.step = i;
            self.out.steps += 1;
            let ok = self.exec(op)?;
            self.check_panics("after command")?;
            if ok {
                acked += 1;
                if refused {
                    refused_then_ok = true;
                }
            } else {
                refused = true;
            }
            if !matches!(op, COp::Restart) {
                self.compare_with_model(Via::Tcp, "after command")?;
                if i % 4 == 3 {
                    self.compare_with_model(Via::Http, "after command")?;
                }
                if self.focus() == "C06" {
                    self.dir_check("after command")?;
                }
            }
        }
        self.step = ops.len();
        self.compare_with_model(Via::Tcp, "end of case")?;
        self.compare_with_model(Via::Http, "end of case")?;
        self.dir_check("end of case")?;
        self.messages_check("end of case")?;
        if self.focus() == "C06" {
            self.final_probe()?;
            if refused_then_ok && acked >= 3 {
                self.out.label("refused-then-accepted");
                self.out.nontrivial = true;
            }
        }
        if self.focus() == "C13" && self.http.is_some() && self.users.len() > 1 && self.streams.values().any(|s| !s.topics.is_empty()) {
            self.out.nontrivial = true;
        }
        if self.focus() == "C16" && acked >= 3 {
            self.out.nontrivial = true;
        }
        if self.focus() == "C19" {
            self.at_rest_scan()?;
        }
        self.check_panics("end of case")
    }

    /// "no later valid command fails": a fixed probe of valid commands at the end
    fn final_probe(&mut self) -> Check {
        let n = self.node.as_ref().unwrap();
        let c = self.tcp.as_ref().unwrap();
        let taken: BTreeSet<u32> = self.streams.keys().copied().collect();
        let id = Self::fresh_id(&taken, 0);
        let r: Result<(), (String, IggyError)> = n.block_on(async {
            c.create_stream("probe-stream-final", Some(id)).await.map_err(|e| ("create_stream".to_string(), e))?;
            let sid = Identifier::numeric(id).unwrap();
            c.create_topic(&sid, "probe-topic", 2, CompressionAlgorithm::None, None, Some(1), IggyExpiry::NeverExpire, MaxTopicSize::Unlimited)
                .await
                .map_err(|e| ("create_topic".to_string(), e))?;
            let tid = Identifier::numeric(1).unwrap();
            c.create_consumer_group(&sid, &tid, "probe-group", Some(1)).await.map_err(|e| ("create_consumer_group".to_string(), e))?;
            c.join_consumer_group(&sid, &tid, &Identifier::numeric(1).unwrap()).await.map_err(|e| ("join_consumer_group".to_string(), e))?;
            let mut m = vec![Message::new(None, Bytes::from_static(b"probe"), None)];
            c.send_messages(&sid, &tid, &Partitioning::partition_id(1), &mut m).await.map_err(|e| ("send_messages".to_string(), e))?;
            c.update_topic(&sid, &Identifier::named("probe-topic").unwrap(), "probe-topic-2", CompressionAlgorithm::None, None, IggyExpiry::NeverExpire, MaxTopicSize::Unlimited)
                .await
                .map_err(|e| ("update_topic by name".to_string(), e))?;
            c.get_topic(&sid, &Identifier::named("probe-topic-2").unwrap())
                .await
                .map_err(|e| ("get_topic by new name".to_string(), e))?
                .ok_or(("get_topic by new name -> none".to_string(), IggyError::ResourceNotFound(String::new())))?;
            c.delete_stream(&Identifier::named("probe-stream-final").unwrap()).await.map_err(|e| ("delete_stream by name".to_string(), e))?;
            Ok(())
        });
        if let Err((what, e)) = r {
            self.check_panics(&what)?;
            return Err(self.fail("C06", "later-valid-command-fails", format!("final probe: {what} failed: {e} ({})", e.as_code())));
        }
        self.check_panics("final probe")?;
        self.compare_with_model(Via::Tcp, "after final probe")
    }

    fn verdict(&mut self, what: &str, r: Result<(), IggyError>, exp: Exp) -> Result<bool, Failure> {
        if let Err(e) = &r {
            if conn_lost(e) {
                self.check_panics(what)?;
                let pr = self.attr(&["C06", "C13", "C05"]).unwrap_or(self.focus().to_string());
                return Err(self.fail(&pr, "connection-lost", format!("{what}: the connection was lost on an administrative command: {e}")));
            }
        }
        self.check_panics(what)?;
        let ok = r.is_ok();
        match (exp, ok) {
            (Exp::Ok, false) => {
                let e = r.err().unwrap();
                let pr = self.attr(&["C06", "C13"]).unwrap_or(self.focus().to_string());
                if self.attr(&["C06", "C13"]).is_none() {
                    // not this run's clause: follow the server (no model change) and go on
                    return Ok(false);
                }
                Err(self.fail(&pr, "valid-command-refused", format!("{what}: a valid command was refused: {e} ({})", e.as_code())))
            }
            (Exp::Err, true) => {
                if self.attr(&["C06"]).is_none() {
                    // cannot continue sensibly: the model did not apply it. Stop interpreting silently.
                    return Err(self.fail("C06", "invalid-command-accepted", format!("{what}: an invalid command was acknowledged")));
                }
                Err(self.fail("C06", "invalid-command-accepted", format!("{what}: an invalid command was acknowledged")))
            }
            _ => Ok(ok),
        }
    }

    fn exec(&mut self, op: &COp) -> Result<bool, Failure> {
        match op.clone() {
            COp::CreateStream { via, name, id } => {
                let name = name_of(name);
                let taken: BTreeSet<u32> = self.streams.keys().copied().collect();
                let (sid, collides) = Self::id_choice(&taken, &id);
                let name_taken = self.streams.values().any(|s| s.name == name);
                let exp = if collides || name_taken || !valid_name(&name) { Exp::Err } else { Exp::Ok };
                let n = self.node.as_ref().unwrap();
                let r = n.block_on(async { self.cl(via).create_stream(&name, sid).await });
                let got_id = r.as_ref().ok().map(|d| d.id);
                let ok = self.verdict("create_stream", r.map(|_| ()), exp)?;
                if ok {
                    let gid = got_id.unwrap();
                    if let Some(want) = sid {
                        if want != gid {
                            return Err(self.fail("C06", "explicit-id-ignored", format!("create_stream with id {want} returned id {gid}")));
                        }
                    }
                    if taken.contains(&gid) {
                        return Err(self.fail("C06", "id-not-unique", format!("create_stream returned id {gid} which a live stream already has")));
                    }
                    self.note_create(sid.is_some());
                    self.streams.insert(gid, MStream { id: gid, name, topics: BTreeMap::new() });
                }
                Ok(ok)
            }
            COp::UpdateStream { via, target, name } => {
                let via = self.via_eff(via);
                let name = name_of(name);
                let (sid, ident) = self.stream_ref(&target, via);
                let clash = self.streams.values().any(|s| s.name == name && Some(s.id) != sid);
                let exp = if sid.is_none() || clash || !valid_name(&name) { Exp::Err } else { Exp::Ok };
                let n = self.node.as_ref().unwrap();
                let r = n.block_on(async { self.cl(via).update_stream(&ident, &name).await });
                let ok = self.verdict("update_stream", r, exp)?;
                if ok {
                    let s = self.streams.get_mut(&sid.unwrap()).unwrap();
                    if s.name != name {
                        self.out.label("stream-renamed");
                    }
                    s.name = name;
                }
                Ok(ok)
            }
            COp::DeleteStream { via, target } => {
                let via = self.via_eff(via);
                let (sid, ident) = self.stream_ref(&target, via);
                let exp = if sid.is_none() { Exp::Err } else { Exp::Ok };
                let memberships: usize = sid
                    .and_then(|s| self.streams.get(&s))
                    .map(|s| (0u8..3).map(|c| s.topics.values().map(|t| t.groups.values().filter(|g| g.members.contains(&c)).count()).sum::<usize>()).max().unwrap_or(0))
                    .unwrap_or(0);
                let n = self.node.as_ref().unwrap();
                let r = n.block_on(async { self.cl(via).delete_stream(&ident).await });
                let ok = self.verdict("delete_stream", r, exp)?;
                if ok {
                    self.streams.remove(&sid.unwrap());
                    self.out.label("stream-deleted");
                    if memberships >= 2 {
                        self.out.label("deleted-with-2-memberships");
                        if self.focus() == "C06" {
                            self.out.nontrivial = true;
                        }
                    }
                    self.note_delete();
                }
                Ok(ok)
            }
            COp::PurgeStream { via, target } => {
                let via = self.via_eff(via);
                let (sid, ident) = self.stream_ref(&target, via);
                let exp = if sid.is_none() { Exp::Err } else { Exp::Ok };
                let n = self.node.as_ref().unwrap();
                let r = n.block_on(async { self.cl(via).purge_stream(&ident).await });
                let ok = self.verdict("purge_stream", r, exp)?;
                if ok {
                    for t in self.streams.get_mut(&sid.unwrap()).unwrap().topics.values_mut() {
                        for p in t.msgs.iter_mut() {
                            p.clear();
                        }
                        t.offsets.clear();
                    }
                }
                Ok(ok)
            }
            COp::CreateTopic { via, stream, name, id, partitions, expiry, max_size, repl } => {
                let via = self.via_eff(via);
                let name = name_of(name);
                let (sid, sident) = self.stream_ref(&stream, via);
                let taken: BTreeSet<u32> = sid.and_then(|s| self.streams.get(&s)).map(|s| s.topics.keys().copied().collect()).unwrap_or_default();
                let (tid, collides) = Self::id_choice(&taken, &id);
                let name_taken = sid.and_then(|s| self.streams.get(&s)).map(|s| s.topics.values().any(|t| t.name == name)).unwrap_or(false);
                let (ms, size_ok) = self.size_of(max_size);
                let exp = if sid.is_none() || collides || name_taken || !valid_name(&name) || !size_ok { Exp::Err } else { Exp::Ok };
                // the compression setting is derived from two generated fields (no new field: older replay files keep their shape)
                let gzip = (expiry as u32 + partitions as u32) % 3 == 1;
                let comp = if gzip { CompressionAlgorithm::Gzip } else { CompressionAlgorithm::None };
                let n = self.node.as_ref().unwrap();
                let r = n.block_on(async {
                    self.cl(via).create_topic(&sident, &name, partitions as u32, comp, repl, tid, Self::expiry_of(expiry), ms).await
                });
                let got_id = r.as_ref().ok().map(|d| d.id);
                let ok = self.verdict("create_topic", r.map(|_| ()), exp)?;
                if ok {
                    let gid = got_id.unwrap();
                    if let Some(want) = tid {
                        if want != gid {
                            return Err(self.fail("C06", "explicit-id-ignored", format!("create_topic with id {want} returned id {gid}")));
                        }
                    }
                    if taken.contains(&gid) {
                        return Err(self.fail("C06", "id-not-unique", format!("create_topic returned id {gid} which a live topic of the stream already has")));
                    }
                    self.note_create(tid.is_some());
                    self.streams.get_mut(&sid.unwrap()).unwrap().topics.insert(
                        gid,
                        MTopic { id: gid, name, partitions: partitions as u32, expiry, max_size, repl: repl.unwrap_or(1), groups: BTreeMap::new(), msgs: vec![vec![]; partitions as usize], offsets: BTreeMap::new(), gzip },
                    );
                }
                Ok(ok)
            }
            COp::UpdateTopic { via, stream, topic, name, expiry, max_size, repl } => {
                let via = self.via_eff(via);
                let name = name_of(name);
                let (sid, sident) = self.stream_ref(&stream, via);
                let (tid, tident) = self.topic_ref(sid, &topic, via);
                let clash = sid.and_then(|s| self.streams.get(&s)).map(|s| s.topics.values().any(|t| t.name == name && Some(t.id) != tid)).unwrap_or(false);
                let (ms, size_ok) = self.size_of(max_size);
                let exp = if tid.is_none() || clash || !valid_name(&name) || !size_ok { Exp::Err } else { Exp::Ok };
                if matches!(topic, Ref::ByName(_)) && tid.is_some() {
                    self.out.label("update-topic-by-name");
                }
                let gzip = (expiry as u32 + max_size as u32) % 3 == 1;
                let comp = if gzip { CompressionAlgorithm::Gzip } else { CompressionAlgorithm::None };
                let n = self.node.as_ref().unwrap();
                let r = n.block_on(async { self.cl(via).update_topic(&sident, &tident, &name, comp, repl, Self::expiry_of(expiry), ms).await });
                let ok = self.verdict("update_topic", r, exp)?;
                if ok {
                    let t = self.streams.get_mut(&sid.unwrap()).unwrap().topics.get_mut(&tid.unwrap()).unwrap();
                    if t.name != name {
                        self.out.label("topic-renamed");
                    }
                    t.name = name;
                    t.expiry = expiry;
                    t.max_size = max_size;
                    t.repl = repl.unwrap_or(1);
                    t.gzip = gzip;
                    if gzip {
                        self.out.label("topic-compression-gzip");
                    }
                }
                Ok(ok)
            }
            COp::DeleteTopic { via, stream, topic } => {
                let via = self.via_eff(via);
                let (sid, sident) = self.stream_ref(&stream, via);
                let (tid, tident) = self.topic_ref(sid, &topic, via);
                let exp = if tid.is_none() { Exp::Err } else { Exp::Ok };
                let memberships: usize = sid
                    .and_then(|s| self.streams.get(&s))
                    .and_then(|s| tid.and_then(|t| s.topics.get(&t)))
                    .map(|t| (0u8..3).map(|c| t.groups.values().filter(|g| g.members.contains(&c)).count()).max().unwrap_or(0))
                    .unwrap_or(0);
                let n = self.node.as_ref().unwrap();
                let r = n.block_on(async { self.cl(via).delete_topic(&sident, &tident).await });
                let ok = self.verdict("delete_topic", r, exp)?;
                if ok {
                    self.streams.get_mut(&sid.unwrap()).unwrap().topics.remove(&tid.unwrap());
                    self.out.label("topic-deleted");
                    if memberships >= 2 {
                        self.out.label("deleted-with-2-memberships");
                        if self.focus() == "C06" {
                            self.out.nontrivial = true;
                        }
                    }
                    self.note_delete();
                }
                Ok(ok)
            }
            COp::PurgeTopic { via, stream, topic } => {
                let via = self.via_eff(via);
                let (sid, sident) = self.stream_ref(&stream, via);
                let (tid, tident) = self.topic_ref(sid, &topic, via);
                let exp = if tid.is_none() { Exp::Err } else { Exp::Ok };
                let n = self.node.as_ref().unwrap();
                let r = n.block_on(async { self.cl(via).purge_topic(&sident, &tident).await });
                let ok = self.verdict("purge_topic", r, exp)?;
                if ok {
                    let t = self.streams.get_mut(&sid.unwrap()).unwrap().topics.get_mut(&tid.unwrap()).unwrap();
                    for p in t.msgs.iter_mut() {
                        p.clear();
                    }
                    t.offsets.clear();
                }
                Ok(ok)
            }
            COp::CreatePartitions { via, stream, topic, n: k } => {
                let via = self.via_eff(via);
                let (sid, sident) = self.stream_ref(&stream, via);
                let (tid, tident) = self.topic_ref(sid, &topic, via);
                let exp = if tid.is_none() { Exp::Err } else { Exp::Ok };
                let n = self.node.as_ref().unwrap();
                let r = n.block_on(async { self.cl(via).create_partitions(&sident, &tident, k as u32).await });
                let ok = self.verdict("create_partitions", r, exp)?;
                if ok {
                    let t = self.streams.get_mut(&sid.unwrap()).unwrap().topics.get_mut(&tid.unwrap()).unwrap();
                    t.partitions += k as u32;
                    for _ in 0..k {
                        t.msgs.push(vec![]);
                    }
                    self.out.label("partitions-added");
                }
                Ok(ok)
            }
            COp::DeletePartitions { via, stream, topic, n: k } => {
                let via = self.via_eff(via);
                let (sid, sident) = self.stream_ref(&stream, via);
                let (tid, tident) = self.topic_ref(sid, &topic, via);
                let have = sid.and_then(|s| self.streams.get(&s)).and_then(|s| tid.and_then(|t| s.topics.get(&t))).map(|t| t.partitions).unwrap_or(0);
                // more than exist: the statement does not say (refuse or clamp) - either, but consistent
                let exp = if tid.is_none() { Exp::Err } else if k as u32 > have { Exp::Either } else { Exp::Ok };
                let n = self.node.as_ref().unwrap();
                let r = n.block_on(async { self.cl(via).delete_partitions(&sident, &tident, k as u32).await });
                let ok = self.verdict("delete_partitions", r, exp)?;
                if ok {
                    let t = self.streams.get_mut(&sid.unwrap()).unwrap().topics.get_mut(&tid.unwrap()).unwrap();
                    let rm = (k as u32).min(t.partitions);
                    t.partitions -= rm;
                    for _ in 0..rm {
                        t.msgs.pop();
                    }
                    if t.partitions == 0 {
                        t.offsets.clear(); // partition 1 is gone, and its stored offsets with it
                    }
                    self.out.label("partitions-deleted");
                }
                Ok(ok)
            }
            COp::CreateGroup { via, stream, topic, name, id } => {
                let via = self.via_eff(via);
                let name = name_of(name);
                let (sid, sident) = self.stream_ref(&stream, via);
                let (tid, tident) = self.topic_ref(sid, &topic, via);
                let groups = sid.and_then(|s| self.streams.get(&s)).and_then(|s| tid.and_then(|t| s.topics.get(&t))).map(|t| t.groups.clone()).unwrap_or_default();
                let taken: BTreeSet<u32> = groups.keys().copied().collect();
                let (gid, collides) = Self::id_choice(&taken, &id);
                let name_taken = groups.values().any(|g| g.name == name);
                let exp = if tid.is_none() || collides || name_taken || !valid_name(&name) { Exp::Err } else { Exp::Ok };
                let n = self.node.as_ref().unwrap();
                let r = n.block_on(async { self.cl(via).create_consumer_group(&sident, &tident, &name, gid).await });
                let got = r.as_ref().ok().map(|d| d.id);
                let ok = self.verdict("create_consumer_group", r.map(|_| ()), exp)?;
                if ok {
                    let g = got.unwrap();
                    if let Some(want) = gid {
                        if want != g {
                            return Err(self.fail("C06", "explicit-id-ignored", format!("create_consumer_group with id {want} returned id {g}")));
                        }
                    }
                    if taken.contains(&g) {
                        return Err(self.fail("C06", "id-not-unique", format!("create_consumer_group returned id {g} which a live group already has")));
                    }
                    self.note_create(gid.is_some());
                    self.streams.get_mut(&sid.unwrap()).unwrap().topics.get_mut(&tid.unwrap()).unwrap().groups.insert(g, MGroup { id: g, name, members: BTreeSet::new() });
                }
                Ok(ok)
            }
            COp::DeleteGroup { via, stream, topic, group } => {
                let via = self.via_eff(via);
                let (sid, sident) = self.stream_ref(&stream, via);
                let (tid, tident) = self.topic_ref(sid, &topic, via);
                let (gid, gident) = self.group_ref(sid, tid, &group, via);
                let exp = if gid.is_none() { Exp::Err } else { Exp::Ok };
                let n = self.node.as_ref().unwrap();
                let r = n.block_on(async { self.cl(via).delete_consumer_group(&sident, &tident, &gident).await });
                let ok = self.verdict("delete_consumer_group", r, exp)?;
                if ok {
                    let t = self.streams.get_mut(&sid.unwrap()).unwrap().topics.get_mut(&tid.unwrap()).unwrap();
                    t.groups.remove(&gid.unwrap());
                    if t.offsets.remove(&(true, gid.unwrap())).is_some() {
                        self.out.label("group-deleted-with-stored-offset");
                        if self.focus() == "C06" {
                            self.out.nontrivial = true;
                        }
                    }
                    self.note_delete();
                }
                Ok(ok)
            }
            COp::Join { client, stream, topic, group } | COp::Leave { client, stream, topic, group } => {
                let joining = matches!(op, COp::Join { .. });
                let (sid, sident) = self.stream_ref(&stream, Via::Tcp);
                let (tid, tident) = self.topic_ref(sid, &topic, Via::Tcp);
                let (gid, gident) = self.group_ref(sid, tid, &group, Via::Tcp);
                if !self.extra.contains_key(&client) {
                    let (ru, rp) = self.users.get(&1).map(|u| (u.name.clone(), u.password.clone())).unwrap();
                    match self.node().tcp_login(&ru, &rp) {
                        Ok(c) => {
                            self.extra.insert(client, c);
                        }
                        Err(e) => {
                            let n = self.node.as_ref().unwrap();
                            let users = n.block_on(async { self.tcp.as_ref().unwrap().get_users().await });
                            return Err(self.fail("C06", "cannot-connect", format!("login as root ('{ru}') on a new connection failed: {e}; get_users says {:?}", users.map(|v| v.iter().map(|u| (u.id, u.username.clone(), u.status.to_string())).collect::<Vec<_>>()))));
                        }
                    }
                }
                let is_member = sid
                    .and_then(|s| self.streams.get(&s))
                    .and_then(|s| tid.and_then(|t| s.topics.get(&t)))
                    .and_then(|t| gid.and_then(|g| t.groups.get(&g)))
                    .map(|g| g.members.contains(&client))
                    .unwrap_or(false);
                let exp = if gid.is_none() {
                    Exp::Err
                } else if joining {
                    if is_member { Exp::Either } else { Exp::Ok }
                } else if is_member {
                    Exp::Ok
                } else {
                    // leaving a group one is not a member of: the statement does not say
                    Exp::Either
                };
                let n = self.node.as_ref().unwrap();
                let c = self.extra.get(&client).unwrap();
                let r = if joining {
                    n.block_on(async { c.join_consumer_group(&sident, &tident, &gident).await })
                } else {
                    n.block_on(async { c.leave_consumer_group(&sident, &tident, &gident).await })
                };
                let ok = self.verdict(if joining { "join_consumer_group" } else { "leave_consumer_group" }, r, exp)?;
                if ok {
                    let g = self.streams.get_mut(&sid.unwrap()).unwrap().topics.get_mut(&tid.unwrap()).unwrap().groups.get_mut(&gid.unwrap()).unwrap();
                    if joining {
                        g.members.insert(client);
                    } else {
                        g.members.remove(&client);
                    }
                }
                Ok(ok)
            }
            COp::Disconnect { client } => {
                if let Some(c) = self.extra.remove(&client) {
                    let n = self.node.as_ref().unwrap();
                    let _ = n.block_on(async { c.shutdown().await });
                    drop(c);
                    for s in self.streams.values_mut() {
                        for t in s.topics.values_mut() {
                            for g in t.groups.values_mut() {
                                g.members.remove(&client);
                            }
                        }
                    }
                    // the server notices the closed connection in that connection's task
                    // (it first drops the client from its client table and then leaves the groups one by one:
                    // wait for the table AND for the groups' member counts, up to 20 s on a loaded machine;
                    // what is still wrong after that is judged by the snapshot comparison)
                    let want = 1 + self.extra.len();
                    let deadline = std::time::Instant::now() + std::time::Duration::from_secs(10);
                    loop {
                        let cnt = n.block_on(async { self.tcp.as_ref().unwrap().get_clients().await }).map(|v| v.iter().filter(|c| c.transport.to_lowercase() == "tcp").count()).unwrap_or(0);
                        let mut groups_ok = true;
                        for st in self.streams.values() {
                            for t in st.topics.values() {
                                for g in t.groups.values() {
                                    let (si, ti, gi) = (Identifier::numeric(st.id).unwrap(), Identifier::numeric(t.id).unwrap(), Identifier::numeric(g.id).unwrap());
                                    let mc = n.block_on(async { self.tcp.as_ref().unwrap().get_consumer_group(&si, &ti, &gi).await }).ok().flatten().map(|d| d.members_count as usize);
                                    if mc.is_some() && mc != Some(g.members.len()) {
                                        groups_ok = false;
                                    }
                                }
                            }
                        }
                        if (cnt <= want && groups_ok) || std::time::Instant::now() > deadline {
                            break;
                        }
                        n.settle(2);
                    }
                    self.out.label("client-disconnected");
                }
                Ok(true)
            }
            COp::Send { stream, topic, n: k } => {
                let (sid, sident) = self.stream_ref(&stream, Via::Tcp);
                let (tid, tident) = self.topic_ref(sid, &topic, Via::Tcp);
                let parts = sid.and_then(|s| self.streams.get(&s)).and_then(|s| tid.and_then(|t| s.topics.get(&t))).map(|t| t.partitions).unwrap_or(0);
                if tid.is_none() || parts == 0 {
                    return Ok(true);
                }
                let mut ms = vec![];
                let mut payloads = vec![];
                for _ in 0..k {
                    self.serial += 1;
                    let p = msgs::fill(0xC0FFEE00 + self.serial, 24);
                    payloads.push(p.clone());
                    ms.push(Message::new(None, Bytes::from(p), None));
                }
                let n = self.node.as_ref().unwrap();
                let r = n.block_on(async { self.tcp.as_ref().unwrap().send_messages(&sident, &tident, &Partitioning::partition_id(1), &mut ms).await });
                let ok = self.verdict("send_messages", r, Exp::Ok)?;
                if ok {
                    self.streams.get_mut(&sid.unwrap()).unwrap().topics.get_mut(&tid.unwrap()).unwrap().msgs[0].extend(payloads);
                    self.out.label("messages-sent");
                }
                Ok(ok)
            }
            COp::StoreOffset { stream, topic, who, group } => {
                let (sid, sident) = self.stream_ref(&stream, Via::Tcp);
                let (tid, tident) = self.topic_ref(sid, &topic, Via::Tcp);
                let parts = sid.and_then(|s| self.streams.get(&s)).and_then(|s| tid.and_then(|t| s.topics.get(&t))).map(|t| t.partitions).unwrap_or(0);
                if tid.is_none() || parts == 0 {
                    return Ok(true);
                }
                let mut have = self.streams[&sid.unwrap()].topics[&tid.unwrap()].msgs[0].len();
                if have == 0 {
                    // an offset can only be stored where a message is: send one first
                    self.serial += 1;
                    let p = msgs::fill(0xC0FFEE00 + self.serial, 24);
                    let mut ms = vec![Message::new(None, Bytes::from(p.clone()), None)];
                    let n = self.node.as_ref().unwrap();
                    let r = n.block_on(async { self.tcp.as_ref().unwrap().send_messages(&sident, &tident, &Partitioning::partition_id(1), &mut ms).await });
                    if !self.verdict("send_messages", r, Exp::Ok)? {
                        return Ok(false);
                    }
                    self.streams.get_mut(&sid.unwrap()).unwrap().topics.get_mut(&tid.unwrap()).unwrap().msgs[0].push(p);
                    have = 1;
                }
                let (key, consumer) = match &group {
                    None => ((false, who as u32), Consumer::new(Identifier::numeric(who as u32).unwrap())),
                    Some(g) => {
                        let (gid, _) = self.group_ref(sid, tid, g, Via::Tcp);
                        let Some(gid) = gid else { return Ok(true) };
                        ((true, gid), Consumer::group(Identifier::numeric(gid).unwrap()))
                    }
                };
                let offset = have as u64 - 1;
                let n = self.node.as_ref().unwrap();
                let r = n.block_on(async { self.tcp.as_ref().unwrap().store_consumer_offset(&consumer, &sident, &tident, Some(1), offset).await });
                let ok = self.verdict("store_consumer_offset", r, Exp::Ok)?;
                if ok {
                    self.streams.get_mut(&sid.unwrap()).unwrap().topics.get_mut(&tid.unwrap()).unwrap().offsets.insert(key, offset);
                    self.out.label("consumer-offset-stored");
                }
                Ok(ok)
            }
            COp::CreateUser { via, name, pwd, active, perms } => {
                let name = username_of(name);
                let pwd = password_of(pwd);
                let taken = self.users.values().any(|u| u.name == name);
                let valid = name.len() >= 3 && name.len() <= 50;
                let exp = if taken || !valid { Exp::Err } else { Exp::Ok };
                let status = if active { UserStatus::Active } else { UserStatus::Inactive };
                let pm = perms.as_ref().map(permgen::build);
                let n = self.node.as_ref().unwrap();
                let r = n.block_on(async { self.cl(via).create_user(&name, &pwd, status, pm).await });
                let got = r.as_ref().ok().map(|d| d.id);
                let ok = self.verdict("create_user", r.map(|_| ()), exp)?;
                if ok {
                    let id = got.unwrap();
                    if self.users.contains_key(&id) {
                        return Err(self.fail("C06", "id-not-unique", format!("create_user returned id {id} which a live user already has")));
                    }
                    self.note_create(false);
                    self.users.insert(id, MUser { id, name, password: pwd, active, perms });
                }
                Ok(ok)
            }
            COp::UpdateUser { via, user, name, active } => {
                let via = self.via_eff(via);
                let (uid, ident) = self.user_ref(&user, via);
                let new_name = name.map(username_of);
                let clash = new_name.as_ref().map(|nn| self.users.values().any(|u| &u.name == nn && Some(u.id) != uid)).unwrap_or(false);
                let valid = new_name.as_ref().map(|nn| nn.len() >= 3 && nn.len() <= 50).unwrap_or(true);
                let exp = if uid.is_none() || clash || !valid { Exp::Err } else { Exp::Ok };
                let status = active.map(|a| if a { UserStatus::Active } else { UserStatus::Inactive });
                let n = self.node.as_ref().unwrap();
                let r = n.block_on(async { self.cl(via).update_user(&ident, new_name.as_deref(), status).await });
                let ok = self.verdict("update_user", r, exp)?;
                if ok {
                    let u = self.users.get_mut(&uid.unwrap()).unwrap();
                    if let Some(nn) = new_name {
                        u.name = nn;
                    }
                    if let Some(a) = active {
                        u.active = a;
                    }
                }
                // root made inactive would lock the harness out: put it back at once
                if ok && uid == Some(1) && active == Some(false) {
                    let n = self.node.as_ref().unwrap();
                    let r = n.block_on(async { self.tcp.as_ref().unwrap().update_user(&Identifier::numeric(1).unwrap(), None, Some(UserStatus::Active)).await });
                    if r.is_ok() {
                        self.users.get_mut(&1).unwrap().active = true;
                    }
                }
                Ok(ok)
            }
            COp::UpdatePerms { via, user, perms } => {
                let via = self.via_eff(via);
                let (uid, ident) = self.user_ref(&user, via);
                let exp = if uid.is_none() || uid == Some(1) { Exp::Err } else { Exp::Ok };
                let pm = perms.as_ref().map(permgen::build);
                let n = self.node.as_ref().unwrap();
                let r = n.block_on(async { self.cl(via).update_permissions(&ident, pm).await });
                let ok = self.verdict("update_permissions", r, exp)?;
                if ok {
                    self.users.get_mut(&uid.unwrap()).unwrap().perms = perms;
                }
                Ok(ok)
            }
            COp::ChangePassword { via, user, right_current, new } => {
                let via = self.via_eff(via);
                let (uid, ident) = self.user_ref(&user, via);
                let newp = password_of(new);
                let cur = uid.and_then(|u| self.users.get(&u)).map(|u| u.password.clone()).unwrap_or("nope".into());
                let cur = if right_current { cur } else { format!("{cur}-wrong") };
                let exp = if uid.is_none() || !right_current { Exp::Err } else { Exp::Ok };
                let n = self.node.as_ref().unwrap();
                let r = n.block_on(async { self.cl(via).change_password(&ident, &cur, &newp).await });
                let ok = self.verdict("change_password", r, exp)?;
                if ok {
                    self.users.get_mut(&uid.unwrap()).unwrap().password = newp;
                }
                Ok(ok)
            }
            COp::DeleteUser { via, user } => {
                let via = self.via_eff(via);
                let (uid, ident) = self.user_ref(&user, via);
                let exp = if uid.is_none() || uid == Some(1) { Exp::Err } else { Exp::Ok };
                let n = self.node.as_ref().unwrap();
                let r = n.block_on(async { self.cl(via).delete_user(&ident).await });
                let ok = self.verdict("delete_user", r, exp)?;
                if ok {
                    self.users.remove(&uid.unwrap());
                    self.note_delete();
                }
                Ok(ok)
            }
            COp::CreatePat { via, name, expiry_s } => {
                let name = patname_of(name);
                let exp = if self.pats.contains_key(&name) || name.len() < 3 || name.len() > 30 { Exp::Err } else { Exp::Ok };
                let ex = match expiry_s {
                    None => IggyExpiry::NeverExpire,
                    Some(s) => IggyExpiry::ExpireDuration(IggyDuration::from(s as u64 * 1_000_000 + 3_600_000_000)),
                };
                let n = self.node.as_ref().unwrap();
                let r = n.block_on(async { self.cl(via).create_personal_access_token(&name, ex).await });
                let tok = r.as_ref().ok().map(|t| t.token.clone());
                let ok = self.verdict("create_personal_access_token", r.map(|_| ()), exp)?;
                if ok {
                    self.pats.insert(name, tok.unwrap());
                }
                Ok(ok)
            }
            COp::DeletePat { via, name } => {
                let name = patname_of(name);
                let exp = if self.pats.contains_key(&name) { Exp::Ok } else { Exp::Err };
                let n = self.node.as_ref().unwrap();
                let r = n.block_on(async { self.cl(via).delete_personal_access_token(&name).await });
                let ok = self.verdict("delete_personal_access_token", r, exp)?;
                if ok {
                    self.pats.remove(&name);
                }
                Ok(ok)
            }
            COp::Restart => {
                self.op_restart()?;
                Ok(true)
            }
        }
    }

    fn note_delete(&mut self) {
        self.out.label("deletion");
        self.events_deleted = true;
    }
    fn note_create(&mut self, explicit: bool) {
        if self.events_deleted {
            self.deleted_then_created = true;
            self.out.label("create-after-delete");
        }
        if explicit {
            self.mixed_ids.0 = true;
        } else {
            self.mixed_ids.1 = true;
        }
    }

    fn op_restart(&mut self) -> Check {
        let prop = self.focus().to_string();
        // runtime view just before shutdown (C05 differential)
        let before = if self.focus() == "C05" { Some(self.server_snapshot(Via::Tcp)?) } else { None };
        if self.focus() == "C05" {
            self.messages_check("before restart")?;
        }
        let n = self.node.as_ref().unwrap();
        for (_, c) in std::mem::take(&mut self.extra) {
            let _ = n.block_on(async { c.shutdown().await });
        }
        if let Some(c) = self.tcp.take() {
            let _ = n.block_on(async { c.shutdown().await });
        }
        self.http = None;
        for s in self.streams.values_mut() {
            for t in s.topics.values_mut() {
                for g in t.groups.values_mut() {
                    g.members.clear();
                }
            }
        }
        let node = self.node.take().unwrap();
        let r = node.stop_clean();
        self.check_panics("shutdown")?;
        if let Err(e) = r {
            return Err(self.fail(&prop, "shutdown-failed", format!("graceful shutdown failed: {e}")));
        }
        match Node::start(&self.cfg, &self.dir.path) {
            Ok(nn) => self.node = Some(nn),
            Err(e) => {
                let ps: Vec<_> = take_panics().into_iter().filter(is_repo_panic).collect();
                let pr = self.attr(&["C05", "C06", "C19"]).unwrap_or(prop);
                let mut f = self.fail(&pr, "restart-failed", format!("restart after acknowledged commands failed: {e:?}; panics: {:?}", ps.first()));
                if let Some(p) = ps.first() {
                    f = f.tag(format!("panic@{}", p.location.rsplit('/').next().unwrap_or("")));
                }
                return Err(f);
            }
        }
        self.check_panics("start-up")?;
        self.connect()?;
        self.out.label("restart");
        if self.deleted_then_created {
            self.out.label("restart-after-delete-then-create");
        }
        if self.mixed_ids.0 && self.mixed_ids.1 {
            self.out.label("restart-with-mixed-ids");
        }
        if self.focus() == "C05" && (self.deleted_then_created || (self.mixed_ids.0 && self.mixed_ids.1)) {
            self.out.nontrivial = true;
        }
        if let Some(before) = before {
            let mut after = self.server_snapshot(Via::Tcp)?;
            let mut before = before;
            // memberships and connected clients do not survive a restart by nature
            strip_members(&mut before);
            strip_members(&mut after);
            if let Some(d) = Self::diff(&before, &after, String::new()) {
                return Err(self.fail("C05", "restart-changed-catalogue", format!("catalogue before shutdown vs after restart differ at {d}")));
            }
            self.dir_check("after restart")?;
            self.messages_check("after restart")?;
            self.credentials_check()?;
        } else {
            self.compare_with_model(Via::Tcp, "after restart")?;
            self.compare_with_model(Via::Http, "after restart")?;
            self.dir_check("after restart")?;
            self.messages_check("after restart")?;
        }
        Ok(())
    }

    /// every password / token that worked before the restart works after it (C05-3)
    fn credentials_check(&mut self) -> Check {
        let users: Vec<MUser> = self.users.values().cloned().collect();
        for u in users {
            if !u.active {
                continue;
            }
            let c = match self.node().tcp_client() {
                Ok(c) => c,
                Err(e) => return Err(self.fail("C05", "cannot-connect", format!("{e}"))),
            };
            let n = self.node.as_ref().unwrap();
            let r = n.block_on(async { iggy::client::UserClient::login_user(&c, &u.name, &u.password).await });
            let _ = n.block_on(async { c.shutdown().await });
            match r {
                Ok(info) if info.user_id == u.id => {}
                Ok(info) => {
                    return Err(self.fail("C05", "login-as-other-identity", format!("after restart user '{}' (id {}) logs in as user id {}", u.name, u.id, info.user_id)))
                }
                Err(e) => {
                    // digit-only usernames resolve to ids at login (a C10 matter): not this property's clause
                    if digits(&u.name) {
                        continue;
                    }
                    return Err(self.fail("C05", "password-lost-by-restart", format!("after restart user '{}' (id {}) cannot log in with the acknowledged password: {e}", u.name, u.id)));
                }
            }
        }
        let pats: Vec<(String, String)> = self.pats.iter().map(|(k, v)| (k.clone(), v.clone())).collect();
        for (name, tok) in pats {
            let c = match self.node().tcp_client() {
                Ok(c) => c,
                Err(e) => return Err(self.fail("C05", "cannot-connect", format!("{e}"))),
            };
            let n = self.node.as_ref().unwrap();
            let r = n.block_on(async { iggy::client::PersonalAccessTokenClient::login_with_personal_access_token(&c, &tok).await });
            let _ = n.block_on(async { c.shutdown().await });
            match r {
                Ok(info) if info.user_id == 1 => {}
                other => return Err(self.fail("C05", "token-lost-by-restart", format!("after restart root's token '{name}' gives {:?}", other.map(|i| i.user_id)))),
            }
        }
        Ok(())
    }

    fn at_rest_scan(&mut self) -> Check {
        // C19: journalled command content must not appear in clear (names of >= 8 bytes, bcrypt marker)
        let mut needles: Vec<Vec<u8>> = vec![b"$2b$".to_vec(), b"long-name-0123456789_ABC".to_vec(), "n".repeat(255).into_bytes(), "u".repeat(50).into_bytes()];
        needles.push(b"probe-stream-final".to_vec());
        let used: Vec<String> = self.case.ops.iter().map(|o| format!("{:?}", o)).collect();
        let _ = used;
        let state_log = self.dir.path.join("state").join("log");
        let bytes = std::fs::read(&state_log).unwrap_or_default();
        let mut scanned = 0;
        for nd in &needles {
            scanned += 1;
            if let Some(at) = find_bytes(&bytes, nd) {
                // only a violation if that content was actually journalled in this case
                return Err(self.fail("C19", "journal-content-in-clear", format!(
                    "'{}' found in clear at byte {at} of the state log although encryption is on", String::from_utf8_lossy(&nd[..nd.len().min(24)]))));
            }
        }
        self.out.count("journal_needles", scanned);
        if bytes.len() > 0 {
            self.out.nontrivial = true;
        }
        Ok(())
    }
}

fn strip_members(v: &mut Value) {
    match v {
        Value::Object(m) => {
            if m.contains_key("clients") {
                m.insert("clients".to_string(), json!([]));
            }
            for k in ["members_count", "listed_members_count", "members_len"] {
                if m.contains_key(k) {
                    m.insert(k.to_string(), json!(0));
                }
            }
            for (_, x) in m.iter_mut() {
                strip_members(x);
            }
        }
        Value::Array(a) => {
            for x in a.iter_mut() {
                strip_members(x);
            }
        }
        _ => {}
    }
}
