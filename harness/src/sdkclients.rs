//! `sdkclients` engine (C20): the SDK's high-level producer and consumer against the real server.

use crate::common::*;
use crate::node::{Node, NodeCfg};
use crate::runner::{Engine, Params, Tier};
use bytes::Bytes;
use futures::StreamExt;
use iggy::client::{Client, ConsumerOffsetClient, MessageClient, StreamClient, TopicClient};
use iggy::clients::client::IggyClient;
use iggy::clients::consumer::{AutoCommit, AutoCommitAfter, AutoCommitWhen};
use iggy::compression::compression_algorithm::CompressionAlgorithm;
use iggy::consumer::Consumer;
use iggy::error::IggyError;
use iggy::identifier::Identifier;
use iggy::messages::poll_messages::PollingStrategy;
use iggy::messages::send_messages::{Message, Partitioning};
use iggy::utils::duration::IggyDuration;
use iggy::utils::expiry::IggyExpiry;
use iggy::utils::topic_size::MaxTopicSize;
use proptest::prelude::*;
use proptest::strategy::BoxedStrategy;
use serde::{Deserialize, Serialize};
use std::collections::{BTreeMap, BTreeSet};
use std::str::FromStr;
use std::sync::Arc;
use std::time::Duration;

pub struct SdkClients;

#[derive(Debug, Clone, PartialEq, Serialize, Deserialize)]
pub enum Call {
    Send(u8),
    SendOne,
    /// explicit partition id (1-based selector)
    SendWithPartition(u8, u8),
    /// to the other topic of the stream ("t2"), n messages
    SendTo(u8),
}

#[derive(Debug, Clone, PartialEq, Serialize, Deserialize)]
pub struct DCase {
    pub partitions: u32,
    /// 0 none, else batch size
    pub batch_size: u16,
    pub interval_ms: u8,
    /// 0 balanced, 1 partition 1, 2 key
    pub partitioning: u8,
    pub calls: Vec<Call>,
    /// consumer: partition (1-based sel), batch size, commit mode, polling (0 next, 1 offset(0), 2 first)
    pub c_part: u8,
    pub c_batch: u8,
    pub commit: u8,
    pub polling: u8,
    /// consumer instances: how many messages each yields before it is dropped (the last drains)
    pub stops: Vec<u8>,
    /// consume as the (only) member of a consumer group - all partitions of t1, no partition id - instead of
    /// as a standalone consumer of one partition
    #[serde(default)]
    pub group: bool,
}

fn commit_of(c: u8) -> (AutoCommit, bool, &'static str) {
    // (mode, commits-on-consumption, name)
    let hour = IggyDuration::from(3_600_000_000u64);
    match c % 14 {
        0 => (AutoCommit::Disabled, true, "disabled"),
        1 => (AutoCommit::When(AutoCommitWhen::PollingMessages), false, "when-polling"),
        2 => (AutoCommit::When(AutoCommitWhen::ConsumingAllMessages), true, "when-all"),
        3 => (AutoCommit::When(AutoCommitWhen::ConsumingEachMessage), true, "when-each"),
        4 => (AutoCommit::When(AutoCommitWhen::ConsumingEveryNthMessage(3)), true, "when-every-3rd"),
        5 => (AutoCommit::After(AutoCommitAfter::ConsumingAllMessages), true, "after-all"),
        6 => (AutoCommit::After(AutoCommitAfter::ConsumingEachMessage), true, "after-each"),
        7 => (AutoCommit::After(AutoCommitAfter::ConsumingEveryNthMessage(2)), true, "after-every-2nd"),
        // the interval variants: with an interval of one hour only the `When` half can act within a case
        8 => (AutoCommit::Interval(hour), true, "interval-1h"),
        9 => (AutoCommit::IntervalOrWhen(hour, AutoCommitWhen::PollingMessages), false, "interval-or-when-polling"),
        10 => (AutoCommit::IntervalOrWhen(hour, AutoCommitWhen::ConsumingAllMessages), true, "interval-or-when-all"),
        11 => (AutoCommit::IntervalOrWhen(hour, AutoCommitWhen::ConsumingEachMessage), true, "interval-or-when-each"),
        12 => (AutoCommit::IntervalOrWhen(hour, AutoCommitWhen::ConsumingEveryNthMessage(3)), true, "interval-or-when-every-3rd"),
        _ => (AutoCommit::Interval(IggyDuration::from(20_000u64)), true, "interval-20ms"),
    }
}

/// modes in which a `next`-polling consumer used as a plain stream never moves the stored offset within a case
fn never_commits(mode: &AutoCommit) -> bool {
    match mode {
        AutoCommit::Disabled | AutoCommit::After(_) | AutoCommit::IntervalOrAfter(_, _) => true,
        AutoCommit::Interval(d) => d.as_micros() >= 1_000_000_000,
        _ => false,
    }
}

/// commit-when-polling (alone or as the `When` half of IntervalOrWhen)
fn commits_when_polling(mode: &AutoCommit) -> bool {
    matches!(mode, AutoCommit::When(AutoCommitWhen::PollingMessages) | AutoCommit::IntervalOrWhen(_, AutoCommitWhen::PollingMessages))
}

fn payload(serial: u32) -> Vec<u8> {
    let mut v = b"c20-".to_vec();
    v.extend_from_slice(&serial.to_le_bytes());
    v.extend_from_slice(&crate::msgs::fill(serial as u64, 12));
    v
}

impl Engine for SdkClients {
    type Case = DCase;
    fn strategy(&self, p: &Params) -> BoxedStrategy<DCase> {
        let maxc = if p.tier == Tier::Thorough { 30 } else { 14 };
        let call = prop_oneof![
            5 => (1u8..12).prop_map(Call::Send),
            2 => Just(Call::SendOne),
            3 => (0u8..3, 1u8..6).prop_map(|(p, n)| Call::SendWithPartition(p, n)),
            3 => (1u8..6).prop_map(Call::SendTo),
        ];
        (
            (1u32..=3, prop_oneof![Just(0u16), Just(1), Just(3), Just(100)], prop_oneof![3 => Just(0u8), 1 => Just(1u8)], 0u8..3),
            proptest::collection::vec(call, 1..=maxc),
            (0u8..3, 1u8..50, 0u8..14, 0u8..3),
            proptest::collection::vec(0u8..40, 0..3),
            prop_oneof![2 => Just(false), 1 => Just(true)],
        )
            .prop_map(|((partitions, batch_size, interval_ms, partitioning), calls, (c_part, c_batch, commit, polling), stops, group)| DCase {
                partitions,
                batch_size,
                interval_ms,
                partitioning,
                calls,
                c_part,
                c_batch,
                commit,
                polling,
                stops,
                group,
            })
            .boxed()
    }
    fn run(&self, case: &DCase, p: &Params) -> Outcome {
        let mut out = Outcome::default();
        let _ = take_panics();
        let dir = ScratchDir::new("sdk");
        let r = run_case(case, p, &dir, &mut out);
        let ps: Vec<_> = take_panics().into_iter().filter(is_repo_panic).collect();
        match r {
            Err(f) => out.failure = Some(f),
            Ok(()) => {
                if let Some(p) = ps.first() {
                    out.failure = Some(Failure::new("C20", "panic", format!("{} at {} ({})", p.message, p.location, p.repo_frame)));
                }
            }
        }
        out
    }
    /// KF-C20-1 can only arise when consumer instances share one client connection (the unmasked mode):
    /// the tag keeps its signature from absorbing failures of runs in which every instance has its own
    fn context_tags(&self, p: &Params) -> Vec<String> {
        if p.masked("KF-C20-1") {
            vec![]
        } else {
            vec!["conn:shared-by-consumer-instances".into()]
        }
    }
    fn rule(&self, _p: &Params) -> String {
        "case = producer settings (batch size none/1/3/100, send interval none/1 ms, partitioning balanced / partition id / key) + a generated list of calls (send n, send_one, send_with_partitioning(explicit partition), send_to(another topic)) + consumer settings (partition, batch size 1..49, one of 14 auto-commit modes (Disabled, When x4, After x3, Interval 1 h / 20 ms, IntervalOrWhen(1 h, ..) x4), polling next / offset(0) / first) + a list of stop points at which the consumer is dropped and re-created with the same identity; in a third of the cases the consumer is instead the only member of a consumer group over all partitions of the topic (no partition id; per-partition order, resume, commit bounds, completeness); oracle: server-side full reads show every produced message exactly once in exactly the addressed stream/topic(/partition); each consumer instance yields strictly increasing offsets without holes from its start; all instances together yield every message of the partition; the server-side committed offset never exceeds what was fetched and, in the commit-on-consumption modes, what was yielded; with 'next' polling a re-created consumer starts right after the committed offset; non-trivial = >=1 send_to or explicit-partition call, or >=1 consumer re-creation after >=1 yielded message".into()
    }
    fn assumptions(&self, _p: &Params) -> Vec<String> {
        vec![
            "real clock (the SDK paces itself with it); a consumer counts as drained after 300 ms without a message".into(),
            "the committed offset is read 120 ms after a consumer is dropped (its offset-storing task runs in the background)".into(),
            "every case owns its client runtime, dropped at the end, so no background task of one case can act in the next".into(),
        ]
    }
}

fn run_case(case: &DCase, p: &Params, dir: &ScratchDir, out: &mut Outcome) -> Check {
    let fail = |c: &str, d: String| Failure::new("C20", c, d);
    let node = Node::start(&NodeCfg { save_threshold: 3, ..NodeCfg::default() }, &dir.path).map_err(|e| fail("start-failed", format!("{e:?}")))?;
    let admin = node.tcp_root().map_err(|e| fail("cannot-connect", e.to_string()))?;
    let parts = case.partitions;
    node.block_on(async {
        admin.create_stream("s1", Some(1)).await?;
        let s = Identifier::numeric(1).unwrap();
        admin.create_topic(&s, "t1", parts, CompressionAlgorithm::None, None, Some(1), IggyExpiry::NeverExpire, MaxTopicSize::Unlimited).await?;
        admin.create_topic(&s, "t2", parts, CompressionAlgorithm::None, None, Some(2), IggyExpiry::NeverExpire, MaxTopicSize::Unlimited).await?;
        Ok::<(), IggyError>(())
    })
    .map_err(|e| fail("setup", e.to_string()))?;
    // the SDK clients live on their own runtime, dropped at the end of the case
    let crt = tokio::runtime::Builder::new_multi_thread().worker_threads(2).enable_all().thread_name("sdk-rt").build().unwrap();
    let addr = node.tcp_addr.to_string();
    let r = crt.block_on(async { drive(case, p, &addr, &node, &admin, out).await });
    crt.shutdown_timeout(Duration::from_millis(200));
    let _ = node.block_on(async { admin.shutdown().await });
    node.kill();
    r
}

async fn sdk_client(addr: &str) -> Result<IggyClient, IggyError> {
    use iggy::client::UserClient;
    use iggy::tcp::client::TcpClient;
    use iggy::tcp::config::{TcpClientConfig, TcpClientReconnectionConfig};
    let cfg = TcpClientConfig {
        server_address: addr.to_string(),
        reconnection: TcpClientReconnectionConfig { enabled: false, ..Default::default() },
        heartbeat_interval: IggyDuration::from_str("1h").unwrap(),
        nodelay: true,
        ..Default::default()
    };
    let t = TcpClient::create(Arc::new(cfg))?;
    Client::connect(&t).await?;
    t.login_user("iggy", "iggy").await?;
    Ok(IggyClient::create(Box::new(t), None, None))
}

async fn full_read(admin: &iggy::tcp::client::TcpClient, node: &Node, topic: u32, pid: u32) -> Result<Vec<Vec<u8>>, IggyError> {
    // admin lives on the node's runtime; polls are plain requests and work from any runtime
    let _ = node;
    let mut all = vec![];
    let mut at = 0u64;
    loop {
        let pm = admin.poll_messages(&Identifier::numeric(1).unwrap(), &Identifier::numeric(topic).unwrap(), Some(pid), &Consumer::new(Identifier::numeric(4000).unwrap()), &PollingStrategy::offset(at), 500, false).await?;
        if pm.messages.is_empty() {
            break;
        }
        for m in &pm.messages {
            all.push(m.payload.to_vec());
        }
        at = all.len() as u64;
    }
    Ok(all)
}

async fn drive(case: &DCase, p: &Params, addr: &str, node: &Node, admin: &iggy::tcp::client::TcpClient, out: &mut Outcome) -> Check {
    let fail = |c: &str, d: String| Failure::new("C20", c, d);
    let client = sdk_client(addr).await.map_err(|e| fail("cannot-connect", e.to_string()))?;
    // ---------------- producer
    let mut b = client.producer("s1", "t1").map_err(|e| fail("producer-build", e.to_string()))?;
    b = if case.batch_size == 0 { b.without_batch_size() } else { b.batch_size(case.batch_size as u32) };
    b = if case.interval_ms == 0 { b.without_send_interval() } else { b.send_interval(IggyDuration::from(case.interval_ms as u64 * 1000)) };
    b = match case.partitioning % 3 {
        0 => b.partitioning(Partitioning::balanced()),
        1 => b.partitioning(Partitioning::partition_id(1)),
        _ => b.partitioning(Partitioning::messages_key_str("key-a").unwrap()),
    };
    let mut producer = b.build();
    producer.init().await.map_err(|e| fail("producer-init", e.to_string()))?;
    let mut serial = 0u32;
    // where every message must be: serial -> (topic, Some(partition) | None = any partition of the topic)
    let mut want: BTreeMap<u32, (u32, Option<u32>)> = BTreeMap::new();
    let mut mk = |n: u8, topic: u32, part: Option<u32>, want: &mut BTreeMap<u32, (u32, Option<u32>)>| -> Vec<Message> {
        (0..n)
            .map(|_| {
                serial += 1;
                want.insert(serial, (topic, part));
                Message::new(None, Bytes::from(payload(serial)), None)
            })
            .collect()
    };
    let default_part = if case.partitioning % 3 == 1 { Some(1) } else { None };
    for (i, c) in case.calls.iter().enumerate() {
        out.steps += 1;
        let r = match c {
            Call::Send(n) => producer.send(mk(*n, 1, default_part, &mut want)).await,
            Call::SendOne => {
                let mut m = mk(1, 1, default_part, &mut want);
                producer.send_one(m.remove(0)).await
            }
            Call::SendWithPartition(p, n) => {
                let pid = 1 + (*p as u32 % case.partitions);
                out.label("explicit-partition-call");
                out.nontrivial = true;
                producer.send_with_partitioning(mk(*n, 1, Some(pid), &mut want), Some(Arc::new(Partitioning::partition_id(pid)))).await
            }
            Call::SendTo(n) => {
                out.label("send-to-other-topic");
                out.nontrivial = true;
                producer.send_to(Arc::new(Identifier::named("s1").unwrap()), Arc::new(Identifier::named("t2").unwrap()), mk(*n, 2, default_part, &mut want), None).await
            }
        };
        if let Err(e) = r {
            return Err(fail("producer-call-failed", format!("call {i} ({:?}) failed: {e}", c)));
        }
    }
    // server-side: every produced message exactly once, exactly where addressed
    let mut found: BTreeMap<u32, Vec<(u32, u32)>> = BTreeMap::new();
    let mut t1: Vec<Vec<Vec<u8>>> = vec![];
    for topic in 1..=2u32 {
        for pid in 1..=case.partitions {
            let msgs = full_read(admin, node, topic, pid).await.map_err(|e| fail("full-read-failed", e.to_string()))?;
            for m in &msgs {
                if m.len() >= 8 && &m[..4] == b"c20-" {
                    let s = u32::from_le_bytes(m[4..8].try_into().unwrap());
                    found.entry(s).or_default().push((topic, pid));
                } else {
                    return Err(fail("foreign-message", format!("topic {topic} partition {pid} holds a message nobody produced")));
                }
            }
            if topic == 1 {
                t1.push(msgs);
            }
        }
    }
    for (s, (topic, part)) in &want {
        let places = found.get(s).cloned().unwrap_or_default();
        if places.len() != 1 {
            return Err(fail("produced-message-count", format!("message {s} addressed to topic {topic} is stored {} times: {:?}", places.len(), places)));
        }
        let (ft, fp) = places[0];
        if ft != *topic {
            return Err(fail("message-in-wrong-topic", format!("message {s} was addressed to topic t{topic} but is stored in topic t{ft} partition {fp}")).tag("send_to"));
        }
        if let Some(p) = part {
            if fp != *p {
                return Err(fail("message-in-wrong-partition", format!("message {s} was addressed to partition {p} of topic t{topic} but is stored in partition {fp}")));
            }
        }
    }
    if case.group {
        return group_phase(case, p, addr, admin, &client, &t1, out).await;
    }
    // ---------------- consumer (single consumer on one partition of t1)
    let pid = 1 + (case.c_part as u32 % case.partitions);
    let log = &t1[(pid - 1) as usize];
    let (mode, on_consumption, mode_name) = commit_of(case.commit);
    let name = "cons-a";
    let cons_ident = Consumer::new(Identifier::named(name).unwrap());
    let s1 = Identifier::numeric(1).unwrap();
    let t1id = Identifier::numeric(1).unwrap();
    let mut yielded_all: BTreeSet<u64> = BTreeSet::new();
    let mut max_yielded: Option<u64> = None;
    let mut instances = case.stops.clone();
    instances.push(255); // the last instance drains
    for (k, stop) in instances.iter().enumerate() {
        // (the previous instance stores its last offsets in a background task after it was dropped: read until
        // two reads 60 ms apart agree, at most 3 s - on a loaded machine 120 ms are not always enough)
        let mut committed = admin.get_consumer_offset(&cons_ident, &s1, &t1id, Some(pid)).await.ok().flatten().map(|o| o.stored_offset);
        if k > 0 {
            let until = std::time::Instant::now() + Duration::from_secs(3);
            loop {
                tokio::time::sleep(Duration::from_millis(60)).await;
                let again = admin.get_consumer_offset(&cons_ident, &s1, &t1id, Some(pid)).await.ok().flatten().map(|o| o.stored_offset);
                if again == committed || std::time::Instant::now() > until {
                    committed = again;
                    break;
                }
                committed = again;
            }
        }
        let strat = match case.polling % 3 {
            0 => PollingStrategy::next(),
            1 => PollingStrategy::offset(0),
            _ => PollingStrategy::first(),
        };
        // KF-C20-1 (open): dropping an IggyConsumer while its poll request is in flight leaves the response
        // unread on the shared connection; the next request on that client reads it as its own answer.
        // Masked = every consumer instance gets a connection of its own.
        let own = if p.masked("KF-C20-1") {
            out.exclude("KF-C20-1");
            Some(sdk_client(addr).await.map_err(|e| fail("cannot-connect", e.to_string()))?)
        } else {
            None
        };
        let cclient = own.as_ref().unwrap_or(&client);
        let mut cb = cclient.consumer(name, "s1", "t1", pid).map_err(|e| fail("consumer-build", e.to_string()))?;
        // KF-C20-2 (open): with `next` polling and a commit mode that stores only every n-th offset, a batch
        // size below n never reaches the next stored offset: the same messages are fetched (and filtered)
        // forever. Masked = the batch size is raised to n for exactly that combination.
        let mut c_batch = case.c_batch.max(1) as u32;
        let nth = match mode {
            AutoCommit::When(AutoCommitWhen::ConsumingEveryNthMessage(n)) | AutoCommit::IntervalOrWhen(_, AutoCommitWhen::ConsumingEveryNthMessage(n)) => n,
            _ => 0,
        };
        if case.polling % 3 == 0 && nth > c_batch && p.masked("KF-C20-2") {
            out.exclude("KF-C20-2");
            c_batch = nth;
        }
        cb = cb.polling_strategy(strat).batch_size(c_batch).auto_commit(mode).without_poll_interval().polling_retry_interval(IggyDuration::from(50_000u64));
        let mut consumer = cb.build();
        consumer.init().await.map_err(|e| fail("consumer-init", format!("instance {k}: {e}")).tag(if k > 0 { "recreated" } else { "first" }))?;
        let mut mine: Vec<u64> = vec![];
        let limit = if *stop == 255 { usize::MAX } else { *stop as usize };
        let mut idle_windows = 0;
        while mine.len() < limit {
            let next = tokio::time::timeout(Duration::from_millis(300), consumer.next()).await;
            match next {
                Err(_) => {
                    // 300 ms without a message: drained - unless messages it still owes are outstanding, then the
                    // machine may simply be slow: up to 6 s of silence are granted before the verdict is left to the clauses below
                    let owed_from = if case.polling % 3 == 0 { committed.map(|c| c + 1).unwrap_or(0) } else { 0 };
                    let reached_end = owed_from as usize >= log.len() || mine.last().map(|l| *l as usize + 1 >= log.len()).unwrap_or(false);
                    idle_windows += 1;
                    // (only with `next` polling does a consumer owe the whole rest of the partition; `first` and
                    // `offset(0)` re-read the same batch by design)
                    if reached_end || idle_windows >= 20 || case.polling % 3 != 0 || never_commits(&mode) {
                        break;
                    }
                    continue;
                }
                Ok(None) => break,
                Ok(Some(Err(e))) => return Err(fail("consumer-error", format!("instance {k}: {e}"))),
                Ok(Some(Ok(rm))) => {
                    let o = rm.message.offset;
                    if rm.partition_id != pid {
                        return Err(fail("consumer-foreign-partition", format!("consumer of partition {pid} was handed a message of partition {}", rm.partition_id)));
                    }
                    if log.get(o as usize).map(|p| p.as_slice()) != Some(rm.message.payload.as_ref()) {
                        return Err(fail("consumer-content", format!("instance {k}: offset {o} has content that differs from the partition's log")));
                    }
                    if let Some(l) = mine.last() {
                        if o != *l + 1 {
                            return Err(fail("consumer-order", format!("instance {k} ({mode_name}, batch {}): yielded offset {o} after {l} (a repeat, a hole or out of order)", case.c_batch)).tag(format!("mode:{mode_name}")));
                        }
                    }
                    mine.push(o);
                    idle_windows = 0;
                    // polling by offset(0) / first re-reads from the start by design, so later instances may only stay quiet
                    // within themselves (the resume clause is for `next`)
                }
            }
        }
        drop(consumer);
        tokio::time::sleep(Duration::from_millis(120)).await;
        // resume clause (next): starts right after the committed offset
        if case.polling % 3 == 0 {
            if let Some(first) = mine.first() {
                let expect = committed.map(|c| c + 1).unwrap_or(0);
                if *first != expect {
                    return Err(fail("consumer-resume", format!(
                        "instance {k} ({mode_name}): the committed offset was {:?} when the consumer was (re-)created, its first yielded offset is {first} (expected {expect})", committed)).tag(format!("mode:{mode_name}")));
                }
            }
        } else if let Some(first) = mine.first() {
            if *first != 0 {
                return Err(fail("consumer-start", format!("instance {k}: polling from the start yielded offset {first} first")));
            }
        }
        for o in &mine {
            yielded_all.insert(*o);
        }
        if let Some(l) = mine.last() {
            max_yielded = Some(max_yielded.map(|m| m.max(*l)).unwrap_or(*l));
        }
        if k > 0 && !mine.is_empty() {
            out.label("consumer-recreated");
            out.nontrivial = true;
        }
        // commit bounds
        let now_committed = admin.get_consumer_offset(&cons_ident, &s1, &t1id, Some(pid)).await.ok().flatten().map(|o| o.stored_offset);
        if let Some(c) = now_committed {
            if c as usize >= log.len() && !log.is_empty() {
                return Err(fail("committed-beyond-fetched", format!("committed offset {c} but the partition holds offsets 0..{}", log.len() - 1)));
            }
            if matches!(mode, AutoCommit::Disabled) {
                return Err(fail("committed-although-disabled", format!("auto-commit is disabled but offset {c} is stored")).tag(format!("mode:{mode_name}")));
            }
            if on_consumption {
                match max_yielded {
                    Some(m) if c <= m => {}
                    other => {
                        return Err(fail("committed-beyond-yielded", format!(
                            "mode {mode_name}: committed offset {c} but the highest offset yielded so far is {:?}", other)).tag(format!("mode:{mode_name}")))
                    }
                }
            }
        }
    }
    // everything of the partition was yielded (by the instances together)
    let missing: Vec<u64> = (0..log.len() as u64).filter(|o| !yielded_all.contains(o)).collect();
    // out of the clause's domain (8.1): `first` polling always asks for the first batch, and `next` polling
    // with auto-commit disabled cannot advance unless the application stores offsets itself
    // (the After(..) modes are carried out by the consumer_ext helpers after the application's handler ran;
    // a consumer used as a plain stream never commits in these modes, like Disabled)
    let by_design_static = case.polling % 3 == 2 || (case.polling % 3 == 0 && never_commits(&mode));
    // commit-when-polling is at-most-once by design: what a dropped instance had fetched (and thereby
    // committed) but not yet yielded is skipped by its successor
    let by_design_static = by_design_static || (commits_when_polling(&mode) && !case.stops.is_empty());
    if by_design_static {
        out.label("static-polling-by-design");
    }
    if !missing.is_empty() && !by_design_static {
        return Err(fail("consumer-missed-messages", format!(
            "mode {mode_name}, polling {}: after the last instance drained, offsets {:?} of partition {pid} were never yielded ({} stored)", case.polling % 3, &missing[..missing.len().min(10)], log.len())).tag(format!("mode:{mode_name}")));
    }
    let _ = client.shutdown().await;
    Ok(())
}

/// C20, group member: one IggyConsumer at a time consumes t1 as the only member of a consumer group
/// (`next` polling, no partition id: the server serves its partitions in turn); instances are dropped and
/// re-created with the same group name. Per partition: content, order without holes within an instance,
/// resume right after the group's committed offset, commit bounds, everything yielded in the end.
async fn group_phase(case: &DCase, p: &Params, addr: &str, admin: &iggy::tcp::client::TcpClient, client: &IggyClient, t1: &[Vec<Vec<u8>>], out: &mut Outcome) -> Check {
    use iggy::client::{ConsumerGroupClient, ConsumerOffsetClient};
    let fail = |c: &str, d: String| Failure::new("C20", c, d).tag("group-member");
    out.label("group-member-consumer");
    let (mut mode, mut on_consumption, mut mode_name) = commit_of(case.commit);
    if never_commits(&mode) {
        // a group member that never commits re-reads the same batch by design: use commit-on-each-message instead
        (mode, on_consumption, mode_name) = commit_of(3);
    }
    let name = "grp-a";
    let gcons = Consumer::group(Identifier::named(name).unwrap());
    let s1 = Identifier::numeric(1).unwrap();
    let t1id = Identifier::numeric(1).unwrap();
    let nparts = case.partitions;
    let mut yielded_all: Vec<BTreeSet<u64>> = vec![BTreeSet::new(); nparts as usize];
    let mut max_yielded: Vec<Option<u64>> = vec![None; nparts as usize];
    let mut instances = case.stops.clone();
    instances.push(255);
    let total: usize = t1.iter().map(|l| l.len()).sum();
    for (k, stop) in instances.iter().enumerate() {
        // the group's committed offsets per partition (stable reads, see the standalone phase)
        let mut committed: Vec<Option<u64>> = vec![];
        for pid in 1..=nparts {
            let mut c = admin.get_consumer_offset(&gcons, &s1, &t1id, Some(pid)).await.ok().flatten().map(|o| o.stored_offset);
            if k > 0 {
                let until = std::time::Instant::now() + Duration::from_secs(3);
                loop {
                    tokio::time::sleep(Duration::from_millis(60)).await;
                    let again = admin.get_consumer_offset(&gcons, &s1, &t1id, Some(pid)).await.ok().flatten().map(|o| o.stored_offset);
                    if again == c || std::time::Instant::now() > until {
                        c = again;
                        break;
                    }
                    c = again;
                }
            }
            committed.push(c);
        }
        let own = if p.masked("KF-C20-1") {
            out.exclude("KF-C20-1");
            Some(sdk_client(addr).await.map_err(|e| fail("cannot-connect", e.to_string()))?)
        } else {
            None
        };
        let cclient = own.as_ref().unwrap_or(client);
        let mut c_batch = case.c_batch.max(1) as u32;
        let nth = match mode {
            AutoCommit::When(AutoCommitWhen::ConsumingEveryNthMessage(n)) | AutoCommit::IntervalOrWhen(_, AutoCommitWhen::ConsumingEveryNthMessage(n)) => n,
            _ => 0,
        };
        if nth > c_batch && p.masked("KF-C20-2") {
            out.exclude("KF-C20-2");
            c_batch = nth;
        }
        let cb = cclient
            .consumer_group(name, "s1", "t1")
            .map_err(|e| fail("consumer-build", e.to_string()))?
            .create_consumer_group_if_not_exists()
            .auto_join_consumer_group()
            .polling_strategy(PollingStrategy::next())
            .batch_size(c_batch)
            .auto_commit(mode)
            .without_poll_interval()
            .polling_retry_interval(IggyDuration::from(50_000u64));
        let mut consumer = cb.build();
        consumer.init().await.map_err(|e| fail("consumer-init", format!("group instance {k}: {e}")).tag(if k > 0 { "recreated" } else { "first" }))?;
        let mut mine: Vec<Vec<u64>> = vec![vec![]; nparts as usize];
        let mut count = 0usize;
        let limit = if *stop == 255 { usize::MAX } else { *stop as usize };
        let mut idle_windows = 0;
        while count < limit {
            let next = tokio::time::timeout(Duration::from_millis(300), consumer.next()).await;
            match next {
                Err(_) => {
                    let reached_end = (0..nparts as usize).all(|i| {
                        let owed_from = committed[i].map(|c| c + 1).unwrap_or(0) as usize;
                        owed_from >= t1[i].len() || mine[i].last().map(|l| *l as usize + 1 >= t1[i].len()).unwrap_or(false)
                    });
                    idle_windows += 1;
                    if reached_end || idle_windows >= 20 {
                        break;
                    }
                    continue;
                }
                Ok(None) => break,
                Ok(Some(Err(e))) => return Err(fail("consumer-error", format!("group instance {k}: {e}"))),
                Ok(Some(Ok(rm))) => {
                    let (pid, o) = (rm.partition_id, rm.message.offset);
                    if pid == 0 || pid > nparts {
                        return Err(fail("consumer-foreign-partition", format!("the group member was handed a message of partition {pid}; t1 has {nparts}")));
                    }
                    let i = (pid - 1) as usize;
                    if t1[i].get(o as usize).map(|p| p.as_slice()) != Some(rm.message.payload.as_ref()) {
                        return Err(fail("consumer-content", format!("group instance {k}: partition {pid} offset {o} has content that differs from the partition's log")));
                    }
                    if let Some(l) = mine[i].last() {
                        if o != *l + 1 {
                            return Err(fail("consumer-order", format!("group instance {k} ({mode_name}, batch {c_batch}): partition {pid} yielded offset {o} after {l} (a repeat, a hole or out of order)")).tag(format!("mode:{mode_name}")));
                        }
                    }
                    mine[i].push(o);
                    count += 1;
                    idle_windows = 0;
                }
            }
        }
        drop(consumer);
        // the member leaves with its connection; wait until the server has noticed, so that the next instance is alone again
        if let Some(o) = own {
            let _ = o.shutdown().await;
            drop(o);
            let until = std::time::Instant::now() + Duration::from_secs(10);
            loop {
                let members = admin.get_consumer_group(&s1, &t1id, &Identifier::named(name).unwrap()).await.ok().flatten().map(|g| g.members_count).unwrap_or(0);
                if members == 0 || std::time::Instant::now() > until {
                    break;
                }
                tokio::time::sleep(Duration::from_millis(20)).await;
            }
        }
        tokio::time::sleep(Duration::from_millis(120)).await;
        for i in 0..nparts as usize {
            let pid = i as u32 + 1;
            // resume: right after the group's committed offset of that partition
            if let Some(first) = mine[i].first() {
                let expect = committed[i].map(|c| c + 1).unwrap_or(0);
                if *first != expect {
                    return Err(fail("consumer-resume", format!(
                        "group instance {k} ({mode_name}): partition {pid}: the group's committed offset was {:?} when the member was (re-)created, the first yielded offset is {first} (expected {expect})", committed[i])).tag(format!("mode:{mode_name}")));
                }
            }
            for o in &mine[i] {
                yielded_all[i].insert(*o);
            }
            if let Some(l) = mine[i].last() {
                max_yielded[i] = Some(max_yielded[i].map(|m| m.max(*l)).unwrap_or(*l));
            }
            let now_committed = admin.get_consumer_offset(&gcons, &s1, &t1id, Some(pid)).await.ok().flatten().map(|o| o.stored_offset);
            if let Some(c) = now_committed {
                if c as usize >= t1[i].len() && !t1[i].is_empty() {
                    return Err(fail("committed-beyond-fetched", format!("partition {pid}: group offset {c} but the partition holds offsets 0..{}", t1[i].len() - 1)));
                }
                if on_consumption {
                    match max_yielded[i] {
                        Some(m) if c <= m => {}
                        other => {
                            return Err(fail("committed-beyond-yielded", format!(
                                "mode {mode_name}: partition {pid}: group offset {c} but the highest offset yielded so far is {:?}", other)).tag(format!("mode:{mode_name}")))
                        }
                    }
                }
            }
        }
        if k > 0 && count > 0 {
            out.label("group-member-recreated");
            out.nontrivial = true;
        }
    }
    let at_most_once = commits_when_polling(&mode) && !case.stops.is_empty();
    if at_most_once {
        out.label("static-polling-by-design");
    } else {
        for i in 0..nparts as usize {
            let missing: Vec<u64> = (0..t1[i].len() as u64).filter(|o| !yielded_all[i].contains(o)).collect();
            if !missing.is_empty() {
                return Err(fail("consumer-missed-messages", format!(
                    "group member, mode {mode_name}: after the last instance drained, offsets {:?} of partition {} were never yielded ({} stored there, {total} in the topic)", &missing[..missing.len().min(10)], i + 1, t1[i].len())).tag(format!("mode:{mode_name}")));
            }
        }
    }
    if nparts > 1 && total > 0 {
        out.label("group-member-over-several-partitions");
    }
    Ok(())
}
