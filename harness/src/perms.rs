//! C09: `permrules` (component-level rule enumeration with a reference lattice and
//! metamorphic relations), `authgate` (every binary command / HTTP route on an
//! unauthenticated connection), `permhist` (permission changes on open sessions).

use crate::common::*;
use crate::node::{Node, NodeCfg};
use crate::permgen::{self, perm_spec, PermSpec, StreamPermSpec, TopicPermSpec};
use crate::runner::{Engine, Params};
use bytes::Bytes;
use iggy::bytes_serializable::BytesSerializable;
use iggy::client::{Client, MessageClient, StreamClient, SystemClient, TopicClient, UserClient};
use iggy::command::Command;
use iggy::compression::compression_algorithm::CompressionAlgorithm;
use iggy::consumer::Consumer;
use iggy::error::IggyError;
use iggy::identifier::Identifier;
use iggy::messages::poll_messages::PollingStrategy;
use iggy::messages::send_messages::{Message, Partitioning};
use iggy::models::user_status::UserStatus;
use iggy::utils::expiry::IggyExpiry;
use iggy::utils::topic_size::MaxTopicSize;
use proptest::prelude::*;
use proptest::strategy::BoxedStrategy;
use serde::{Deserialize, Serialize};
use server::streaming::users::permissioner::Permissioner;
use std::io::{Read, Write};

// ------------------------------------------------------------------ reference lattice

#[derive(Debug, Clone, Copy, PartialEq, Eq)]
pub enum Rule {
    GetStats,
    GetClients,
    GetClient,
    GetUser,
    GetUsers,
    CreateUser,
    DeleteUser,
    UpdateUser,
    UpdatePermissions,
    ChangePassword,
    GetStreams,
    GetStream,
    CreateStream,
    UpdateStream,
    DeleteStream,
    PurgeStream,
    GetTopics,
    GetTopic,
    CreateTopic,
    UpdateTopic,
    DeleteTopic,
    PurgeTopic,
    CreatePartitions,
    DeletePartitions,
    CreateGroup,
    DeleteGroup,
    GetGroup,
    GetGroups,
    JoinGroup,
    LeaveGroup,
    GetOffset,
    StoreOffset,
    DeleteOffset,
    Poll,
    Append,
}

pub const RULES: [Rule; 35] = [
    Rule::GetStats, Rule::GetClients, Rule::GetClient, Rule::GetUser, Rule::GetUsers, Rule::CreateUser, Rule::DeleteUser, Rule::UpdateUser,
    Rule::UpdatePermissions, Rule::ChangePassword, Rule::GetStreams, Rule::GetStream, Rule::CreateStream, Rule::UpdateStream, Rule::DeleteStream,
    Rule::PurgeStream, Rule::GetTopics, Rule::GetTopic, Rule::CreateTopic, Rule::UpdateTopic, Rule::DeleteTopic, Rule::PurgeTopic,
    Rule::CreatePartitions, Rule::DeletePartitions, Rule::CreateGroup, Rule::DeleteGroup, Rule::GetGroup, Rule::GetGroups, Rule::JoinGroup,
    Rule::LeaveGroup, Rule::GetOffset, Rule::StoreOffset, Rule::DeleteOffset, Rule::Poll, Rule::Append,
];

#[derive(Debug, Clone, Copy, PartialEq)]
enum Scope {
    Global,
    Stream,
    Topic,
}

fn scope(r: Rule) -> Scope {
    use Rule::*;
    match r {
        GetStats | GetClients | GetClient | GetUser | GetUsers | CreateUser | DeleteUser | UpdateUser | UpdatePermissions | ChangePassword | GetStreams | CreateStream => Scope::Global,
        GetStream | UpdateStream | DeleteStream | PurgeStream | GetTopics | CreateTopic => Scope::Stream,
        _ => Scope::Topic,
    }
}

fn eval(p: &Permissioner, r: Rule, u: u32, s: u32, t: u32) -> Result<(), IggyError> {
    use Rule::*;
    match r {
        GetStats => p.get_stats(u),
        GetClients => p.get_clients(u),
        GetClient => p.get_client(u),
        GetUser => p.get_user(u),
        GetUsers => p.get_users(u),
        CreateUser => p.create_user(u),
        DeleteUser => p.delete_user(u),
        UpdateUser => p.update_user(u),
        UpdatePermissions => p.update_permissions(u),
        ChangePassword => p.change_password(u),
        GetStreams => p.get_streams(u),
        GetStream => p.get_stream(u, s),
        CreateStream => p.create_stream(u),
        UpdateStream => p.update_stream(u, s),
        DeleteStream => p.delete_stream(u, s),
        PurgeStream => p.purge_stream(u, s),
        GetTopics => p.get_topics(u, s),
        GetTopic => p.get_topic(u, s, t),
        CreateTopic => p.create_topic(u, s),
        UpdateTopic => p.update_topic(u, s, t),
        DeleteTopic => p.delete_topic(u, s, t),
        PurgeTopic => p.purge_topic(u, s, t),
        CreatePartitions => p.create_partitions(u, s, t),
        DeletePartitions => p.delete_partitions(u, s, t),
        CreateGroup => p.create_consumer_group(u, s, t),
        DeleteGroup => p.delete_consumer_group(u, s, t),
        GetGroup => p.get_consumer_group(u, s, t),
        GetGroups => p.get_consumer_groups(u, s, t),
        JoinGroup => p.join_consumer_group(u, s, t),
        LeaveGroup => p.leave_consumer_group(u, s, t),
        GetOffset => p.get_consumer_offset(u, s, t),
        StoreOffset => p.store_consumer_offset(u, s, t),
        DeleteOffset => p.delete_consumer_offset(u, s, t),
        Poll => p.poll_messages(u, s, t),
        Append => p.append_messages(u, s, t),
    }
}

/// The documented hierarchy (sdk/src/models/permissions.rs doc comments) in its most
/// permissive reading: manage ⊇ read ⊇ poll, stream scope ⊇ topic scope, "manage"
/// includes sending at its scope. Used for soundness only (impl allows ⇒ this allows).
pub fn reference_allows(spec: &PermSpec, r: Rule, s: u32, t: u32) -> bool {
    let g = spec.global;
    let gb = |bit: u16| g & bit != 0;
    let (g_manage_servers, g_read_servers, g_manage_users, g_read_users) = (gb(1), gb(2), gb(4), gb(8));
    let g_manage_streams = gb(16);
    let g_manage_topics = gb(64) || g_manage_streams;
    let g_read_streams = gb(32) || g_manage_streams;
    let g_read_topics = gb(128) || g_read_streams || g_manage_topics;
    let g_poll = gb(256) || g_read_topics;
    let g_send = gb(512) || g_manage_topics;
    let sr: Option<&StreamPermSpec> = spec.streams.as_ref().and_then(|v| v.iter().rev().find(|x| x.stream == s));
    let sf = |bit: u8| sr.map(|x| x.flags & bit != 0).unwrap_or(false);
    let s_manage_stream = sf(1);
    let s_manage_topics = sf(4) || s_manage_stream;
    let s_read_stream = sf(2) || s_manage_stream;
    let s_read_topics = sf(8) || s_read_stream || s_manage_topics;
    let s_poll = sf(16) || s_read_topics;
    let s_send = sf(32) || s_manage_topics;
    let topic_recs: Vec<&TopicPermSpec> = sr.and_then(|x| x.topics.as_ref()).map(|v| v.iter().collect()).unwrap_or_default();
    let tr: Option<&TopicPermSpec> = topic_recs.iter().rev().find(|x| x.topic == t).copied();
    let tf = |bit: u8| tr.map(|x| x.flags & bit != 0).unwrap_or(false);
    let t_manage = tf(1);
    let t_read = tf(2) || t_manage;
    let t_poll = tf(4) || t_read;
    let t_send = tf(8) || t_manage;
    let any_topic_read = topic_recs.iter().any(|x| x.flags & 3 != 0);
    use Rule::*;
    match r {
        GetStats | GetClients | GetClient => g_read_servers || g_manage_servers,
        GetUser | GetUsers => g_read_users || g_manage_users,
        CreateUser | DeleteUser | UpdateUser | UpdatePermissions | ChangePassword => g_manage_users,
        GetStreams => g_read_streams,
        GetStream => g_read_streams || s_read_stream,
        CreateStream => g_manage_streams,
        UpdateStream | DeleteStream | PurgeStream => g_manage_streams || s_manage_stream,
        GetTopics => g_read_topics || s_read_topics || any_topic_read,
        GetTopic | CreateGroup | DeleteGroup | GetGroup | GetGroups | JoinGroup | LeaveGroup => g_read_topics || s_read_topics || t_read,
        CreateTopic => g_manage_topics || s_manage_topics,
        UpdateTopic | DeleteTopic | PurgeTopic | CreatePartitions | DeletePartitions => g_manage_topics || s_manage_topics || t_manage,
        GetOffset | StoreOffset | DeleteOffset | Poll => g_poll || s_poll || t_poll,
        Append => g_send || s_send || t_send,
    }
}

// ------------------------------------------------------------------ permrules

pub struct PermRules;

#[derive(Debug, Clone, PartialEq, Serialize, Deserialize)]
pub enum Grow {
    GlobalBit(u8),
    StreamBit(u8),
    TopicBit(u8),
    AddStreamRecord { flags: u8, with_table: bool },
    AddTopicRecord { flags: u8 },
    AddForeignStream { flags: u8, topics: Option<Vec<TopicPermSpec>> },
    AddForeignTopic { flags: u8 },
}

#[derive(Debug, Clone, PartialEq, Serialize, Deserialize)]
pub struct RCase {
    pub spec: PermSpec,
    pub stream: u32,
    pub topic: u32,
    pub grow: Vec<Grow>,
    /// edits to foreign records (isolation)
    pub foreign: Vec<Grow>,
    /// (6) a history of permission-table operations over several users whose ids overlap the stream ids
    #[serde(default)]
    pub hist: Vec<PHOp>,
}

#[derive(Debug, Clone, PartialEq, Serialize, Deserialize)]
pub enum PHOp {
    /// user created / loaded with this record (None = no permissions)
    Init { user: u32, spec: Option<PermSpec> },
    /// update_permissions (the server deletes and re-initialises)
    Update { user: u32, spec: Option<PermSpec> },
    /// user deleted
    Delete { user: u32 },
}

fn phop_s() -> BoxedStrategy<PHOp> {
    let spec = || prop_oneof![1 => Just(None), 6 => perm_spec(4, 3).prop_map(Some)];
    prop_oneof![
        4 => (1u32..=4, spec()).prop_map(|(user, spec)| PHOp::Init { user, spec }),
        4 => (1u32..=4, spec()).prop_map(|(user, spec)| PHOp::Update { user, spec }),
        1 => (1u32..=4).prop_map(|user| PHOp::Delete { user }),
    ]
    .boxed()
}

/// all verdicts of `u` over streams 1..=4 x topics 1..=3
fn verdict_table(p: &Permissioner, u: u32) -> Result<Vec<bool>, (Rule, u32, u32, String)> {
    let mut out = Vec::with_capacity(RULES.len() * 12);
    for s in 1..=4u32 {
        for t in 1..=3u32 {
            for r in RULES.iter() {
                match std::panic::catch_unwind(std::panic::AssertUnwindSafe(|| eval(p, *r, u, s, t))) {
                    Ok(x) => out.push(x.is_ok()),
                    Err(_) => {
                        let ps = take_panics();
                        return Err((*r, s, t, ps.last().map(|p| format!("{} at {}", p.message, p.location)).unwrap_or_default()));
                    }
                }
            }
        }
    }
    Ok(out)
}

/// last-wins de-duplication (a Vec spec may name a stream / topic twice; the map keeps the last)
fn canon_spec(spec: &PermSpec) -> PermSpec {
    let mut s = spec.clone();
    if let Some(ss) = &mut s.streams {
        let mut out: Vec<StreamPermSpec> = vec![];
        for st in ss.iter() {
            let mut st = st.clone();
            if let Some(ts) = &mut st.topics {
                let mut to: Vec<TopicPermSpec> = vec![];
                for t in ts.iter() {
                    to.retain(|x| x.topic != t.topic);
                    to.push(t.clone());
                }
                *ts = to;
            }
            out.retain(|x| x.stream != st.stream);
            out.push(st);
        }
        *ss = out;
    }
    s
}

fn apply_grow(spec: &PermSpec, g: &Grow, s: u32, t: u32) -> PermSpec {
    let mut n = canon_spec(spec);
    let find_stream = |n: &mut PermSpec, id: u32| -> Option<usize> { n.streams.as_ref().and_then(|v| v.iter().position(|x| x.stream == id)) };
    match g {
        Grow::GlobalBit(b) => n.global |= 1 << (b % 10),
        Grow::StreamBit(b) => {
            if let Some(i) = find_stream(&mut n, s) {
                n.streams.as_mut().unwrap()[i].flags |= 1 << (b % 6);
            }
        }
        Grow::TopicBit(b) => {
            if let Some(i) = find_stream(&mut n, s) {
                if let Some(ts) = n.streams.as_mut().unwrap()[i].topics.as_mut() {
                    if let Some(tp) = ts.iter_mut().find(|x| x.topic == t) {
                        tp.flags |= 1 << (b % 4);
                    }
                }
            }
        }
        Grow::AddStreamRecord { flags, with_table } => {
            if find_stream(&mut n, s).is_none() {
                n.streams.get_or_insert_with(Vec::new).push(StreamPermSpec { stream: s, flags: *flags & 63, topics: if *with_table { Some(vec![]) } else { None } });
            }
        }
        Grow::AddTopicRecord { flags } => {
            if let Some(i) = find_stream(&mut n, s) {
                let st = &mut n.streams.as_mut().unwrap()[i];
                let ts = st.topics.get_or_insert_with(Vec::new);
                if !ts.iter().any(|x| x.topic == t) {
                    ts.push(TopicPermSpec { topic: t, flags: *flags & 15 });
                }
            }
        }
        Grow::AddForeignStream { flags, topics } => {
            let other = s + 7;
            let v = n.streams.get_or_insert_with(Vec::new);
            v.retain(|x| x.stream != other);
            v.push(StreamPermSpec { stream: other, flags: *flags & 63, topics: topics.clone() });
        }
        Grow::AddForeignTopic { flags } => {
            if let Some(i) = find_stream(&mut n, s) {
                let st = &mut n.streams.as_mut().unwrap()[i];
                if let Some(ts) = st.topics.as_mut() {
                    let other = t + 9;
                    ts.retain(|x| x.topic != other);
                    ts.push(TopicPermSpec { topic: other, flags: *flags & 15 });
                }
            }
        }
    }
    n
}

fn verdicts(spec: &PermSpec, s: u32, t: u32) -> Result<Vec<bool>, (Rule, String)> {
    let mut p = Permissioner::default();
    p.init_permissions_for_user(2, Some(permgen::build(spec)));
    let mut out = vec![];
    for r in RULES.iter() {
        let v = std::panic::catch_unwind(std::panic::AssertUnwindSafe(|| eval(&p, *r, 2, s, t)));
        match v {
            Ok(x) => out.push(x.is_ok()),
            Err(_) => {
                let ps = take_panics();
                return Err((*r, ps.last().map(|p| format!("{} at {}", p.message, p.location)).unwrap_or_default()));
            }
        }
    }
    Ok(out)
}

fn grow_s() -> BoxedStrategy<Grow> {
    prop_oneof![
        3 => (0u8..10).prop_map(Grow::GlobalBit),
        3 => (0u8..6).prop_map(Grow::StreamBit),
        3 => (0u8..4).prop_map(Grow::TopicBit),
        3 => (0u8..64, any::<bool>()).prop_map(|(flags, with_table)| Grow::AddStreamRecord { flags, with_table }),
        2 => (0u8..16).prop_map(|flags| Grow::AddTopicRecord { flags }),
    ]
    .boxed()
}
fn foreign_s() -> BoxedStrategy<Grow> {
    prop_oneof![
        (0u8..64, prop_oneof![Just(None), Just(Some(vec![])), proptest::collection::vec(permgen::topic_spec(3), 1..3).prop_map(Some)]).prop_map(|(flags, topics)| Grow::AddForeignStream { flags, topics }),
        (0u8..16).prop_map(|flags| Grow::AddForeignTopic { flags }),
    ]
    .boxed()
}

impl Engine for PermRules {
    type Case = RCase;
    fn strategy(&self, _p: &Params) -> BoxedStrategy<RCase> {
        (perm_spec(3, 3), 1u32..=3, 1u32..=3, proptest::collection::vec(grow_s(), 0..4), proptest::collection::vec(foreign_s(), 0..3), proptest::collection::vec(phop_s(), 0..7))
            .prop_map(|(spec, stream, topic, grow, foreign, hist)| RCase { spec, stream, topic, grow, foreign, hist })
            .boxed()
    }
    fn run(&self, case: &RCase, _p: &Params) -> Outcome {
        let mut out = Outcome::default();
        let _ = take_panics();
        let (s, t) = (case.stream, case.topic);
        let spec = canon_spec(&case.spec);
        let fail = |clause: &str, d: String, r: Rule| Failure::new("C09", clause, d).tag(format!("rule:{:?}", r));
        // (1) never panics, (2) soundness
        let base = match verdicts(&spec, s, t) {
            Ok(v) => v,
            Err((r, m)) => {
                out.failure = Some(fail("permission-evaluation-panics", format!("{:?}(stream {s}, topic {t}) panicked with record {:?}: {m}", r, spec), r));
                return out;
            }
        };
        out.steps += RULES.len() as u64;
        for (i, r) in RULES.iter().enumerate() {
            if base[i] && !reference_allows(&spec, *r, s, t) {
                out.failure = Some(fail("allowed-without-granting-permission", format!(
                    "{:?}(stream {s}, topic {t}) is allowed although no permission of the record grants it under the documented hierarchy: {:?}", r, spec), *r));
                return out;
            }
        }
        let depends_on_record = spec.streams.as_ref().map(|v| v.iter().any(|x| x.stream == s)).unwrap_or(false);
        if depends_on_record {
            out.nontrivial = true;
            out.label("stream-record-for-target");
            if spec.streams.as_ref().unwrap().iter().any(|x| x.stream == s && x.topics.is_none()) {
                out.label("stream-record-without-topic-table");
            }
        }
        // (5) root
        let root = verdicts(&permgen::root_spec(), s, t);
        if let Ok(v) = &root {
            if let Some(i) = v.iter().position(|x| !x) {
                out.failure = Some(fail("root-denied", format!("{:?} denied for the root record", RULES[i]), RULES[i]));
                return out;
            }
        }
        // (3) monotonicity: growing the record never turns allowed into denied (nor into a panic)
        let mut cur = spec.clone();
        let mut curv = base.clone();
        for g in &case.grow {
            let next = apply_grow(&cur, g, s, t);
            if next == cur {
                continue;
            }
            match verdicts(&next, s, t) {
                Err((r, m)) => {
                    out.failure = Some(fail("permission-evaluation-panics", format!("{:?}(stream {s}, topic {t}) panicked after growing the record by {:?}: {:?}: {m}", r, g, next), r));
                    return out;
                }
                Ok(nv) => {
                    for (i, r) in RULES.iter().enumerate() {
                        if curv[i] && !nv[i] {
                            out.failure = Some(fail("more-permissions-deny", format!(
                                "{:?}(stream {s}, topic {t}) allowed with {:?} but denied after adding {:?} -> {:?}", r, cur, g, next), *r));
                            return out;
                        }
                    }
                    out.steps += RULES.len() as u64;
                    cur = next;
                    curv = nv;
                }
            }
        }
        // (4) isolation: records of other streams / other topics never change a verdict
        let mut iso = spec.clone();
        for g in &case.foreign {
            let next = apply_grow(&iso, g, s, t);
            match verdicts(&next, s, t) {
                Err((r, m)) => {
                    out.failure = Some(fail("permission-evaluation-panics", format!("{:?} panicked after adding a foreign record {:?}: {m}", r, g), r));
                    return out;
                }
                Ok(nv) => {
                    for (i, r) in RULES.iter().enumerate() {
                        let topic_scoped_only = matches!(g, Grow::AddForeignTopic { .. });
                        // a record of another topic of the same stream is in scope for stream-scoped rules
                        if topic_scoped_only && scope(*r) != Scope::Topic {
                            continue;
                        }
                        if base[i] != nv[i] {
                            out.failure = Some(fail("foreign-record-changes-verdict", format!(
                                "{:?}(stream {s}, topic {t}) is {} with {:?} but {} after adding a record for another {} ({:?})",
                                r, base[i], spec, nv[i], if topic_scoped_only { "topic" } else { "stream" }, g), *r));
                            return out;
                        }
                    }
                    out.steps += RULES.len() as u64;
                }
            }
            iso = next;
            // verdict base stays the original; foreign edits accumulate
        }
        // (6) several users, histories: every user's verdicts are a function of that user's CURRENT record only -
        // not of other users' records (user ids 1..4 deliberately collide with stream ids 1..4) and not of
        // records the user held before an update / deletion. Oracle: a fresh Permissioner holding only that record.
        if !case.hist.is_empty() {
            let mut p = Permissioner::default();
            let mut model: std::collections::BTreeMap<u32, Option<PermSpec>> = Default::default();
            let mut updates = 0;
            for op in &case.hist {
                match op {
                    PHOp::Init { user, spec } | PHOp::Update { user, spec } => {
                        let perms = spec.as_ref().map(permgen::build);
                        if matches!(op, PHOp::Update { .. }) && model.contains_key(user) {
                            p.update_permissions_for_user(*user, perms);
                            updates += 1;
                        } else if model.contains_key(user) {
                            // a user id is initialised once per lifetime: re-creation = delete, then init
                            p.delete_permissions_for_user(*user);
                            p.init_permissions_for_user(*user, perms);
                        } else {
                            p.init_permissions_for_user(*user, perms);
                        }
                        model.insert(*user, spec.as_ref().map(canon_spec));
                    }
                    PHOp::Delete { user } => {
                        if model.remove(user).is_some() {
                            p.delete_permissions_for_user(*user);
                            updates += 1;
                        }
                    }
                }
            }
            for u in 1..=4u32 {
                let mut fresh = Permissioner::default();
                if let Some(spec) = model.get(&u) {
                    fresh.init_permissions_for_user(u, spec.as_ref().map(permgen::build));
                }
                let (got, want) = match (verdict_table(&p, u), verdict_table(&fresh, u)) {
                    (Ok(a), Ok(b)) => (a, b),
                    (Err((r, s, t, m)), _) | (_, Err((r, s, t, m))) => {
                        out.failure = Some(fail("permission-evaluation-panics", format!("{:?}(user {u}, stream {s}, topic {t}) panicked after the history {:?}: {m}", r, case.hist), r));
                        return out;
                    }
                };
                out.steps += got.len() as u64;
                if let Some(i) = (0..got.len()).find(|i| got[*i] != want[*i]) {
                    let r = RULES[i % RULES.len()];
                    let (s, t) = ((i / RULES.len()) / 3 + 1, (i / RULES.len()) % 3 + 1);
                    out.failure = Some(fail("verdict-depends-on-other-users-or-history", format!(
                        "{:?}(user {u}, stream {s}, topic {t}) is {} after the permission history {:?}, but {} for a fresh table holding only user {u}'s current record {:?}",
                        r, if got[i] { "ALLOWED" } else { "denied" }, case.hist, if want[i] { "allowed" } else { "DENIED" }, model.get(&u)), r));
                    return out;
                }
            }
            if model.len() >= 2 {
                out.label("several-users-with-records");
            }
            if updates > 0 {
                out.label("record-updated-or-deleted");
            }
        }
        for b in 0..10 {
            if spec.global & (1 << b) != 0 {
                out.count(&format!("global-flag-{b}-set"), 1);
            }
        }
        out
    }
    fn rule(&self, _p: &Params) -> String {
        "case = a generated permission record (10 global flags; optional stream records with 6 flags and an absent / empty / populated topic table with 4 flags per topic), a target stream and topic, a list of growth steps (set one more flag / add a record) and a list of foreign edits (records for another stream / another topic); all 35 Permissioner rules are evaluated on the real Permissioner: no panic, soundness against a reference lattice written from the documented hierarchy (most permissive reading), monotonicity under growth, isolation from foreign records, root allows everything; plus a generated history of init / update_permissions / delete over users 1..4 (ids colliding with stream ids 1..4) after which every user's verdicts for all rules x 4 streams x 3 topics must equal those of a fresh table holding only that user's current record; non-trivial = the record contains a stream record for the target stream".into()
    }
    fn assumptions(&self, _p: &Params) -> Vec<String> {
        vec!["the reference lattice is the most permissive reading of the doc comments, so soundness can only under-report".into()]
    }
}

// ------------------------------------------------------------------ raw frames (authgate)

pub fn raw_request(addr: std::net::SocketAddr, frames: &[(u32, Vec<u8>)]) -> Vec<Result<(u32, Vec<u8>), String>> {
    let mut out = vec![];
    let mut s = match std::net::TcpStream::connect(addr) {
        Ok(s) => s,
        Err(e) => return vec![Err(format!("connect: {e}"))],
    };
    let _ = s.set_read_timeout(Some(std::time::Duration::from_secs(5)));
    let _ = s.set_nodelay(true);
    for (code, payload) in frames {
        let mut f = Vec::with_capacity(8 + payload.len());
        f.extend_from_slice(&((payload.len() + 4) as u32).to_le_bytes());
        f.extend_from_slice(&code.to_le_bytes());
        f.extend_from_slice(payload);
        if let Err(e) = s.write_all(&f) {
            out.push(Err(format!("write: {e}")));
            continue;
        }
        let mut head = [0u8; 8];
        match s.read_exact(&mut head) {
            Err(e) => out.push(Err(format!("closed: {e}"))),
            Ok(()) => {
                let status = u32::from_le_bytes(head[0..4].try_into().unwrap());
                let len = u32::from_le_bytes(head[4..8].try_into().unwrap()) as usize;
                let mut body = vec![0u8; len.min(10_000_000)];
                if len > 0 && s.read_exact(&mut body).is_err() {
                    out.push(Err("short body".into()));
                    continue;
                }
                out.push(Ok((status, body)));
            }
        }
    }
    out
}

fn frame_of<T: Command>(c: &T) -> (u32, Vec<u8>) {
    (c.code(), c.to_bytes().to_vec())
}

/// one valid instance of every binary command (name, frame, needs_auth)
pub fn all_commands() -> Vec<(&'static str, (u32, Vec<u8>), bool)> {
    use iggy::consumer_groups::{create_consumer_group::*, delete_consumer_group::*, get_consumer_group::*, get_consumer_groups::*, join_consumer_group::*, leave_consumer_group::*};
    use iggy::consumer_offsets::{delete_consumer_offset::*, get_consumer_offset::*, store_consumer_offset::*};
    use iggy::messages::flush_unsaved_buffer::FlushUnsavedBuffer;
    use iggy::messages::poll_messages::PollMessages;
    use iggy::messages::send_messages::SendMessages;
    use iggy::partitions::{create_partitions::*, delete_partitions::*};
    use iggy::personal_access_tokens::{create_personal_access_token::*, delete_personal_access_token::*, get_personal_access_tokens::*, login_with_personal_access_token::*};
    use iggy::streams::{create_stream::*, delete_stream::*, get_stream::*, get_streams::*, purge_stream::*, update_stream::*};
    use iggy::system::{get_client::*, get_clients::*, get_me::*, get_snapshot::*, get_stats::*, ping::*};
    use iggy::topics::{create_topic::*, delete_topic::*, get_topic::*, get_topics::*, purge_topic::*, update_topic::*};
    use iggy::users::{change_password::*, create_user::*, delete_user::*, get_user::*, get_users::*, login_user::*, logout_user::*, update_permissions::*, update_user::*};
    let one = || Identifier::numeric(1).unwrap();
    let two = || Identifier::numeric(2).unwrap();
    vec![
        ("ping", frame_of(&Ping {}), false),
        ("login_user(wrong password)", frame_of(&LoginUser { username: "iggy".into(), password: "wrong-password".into(), version: None, context: None }), false),
        ("login_with_personal_access_token(bogus)", frame_of(&LoginWithPersonalAccessToken { token: "bogus-token-value".into() }), false),
        ("get_stats", frame_of(&GetStats {}), true),
        ("get_me", frame_of(&GetMe {}), true),
        ("get_client", frame_of(&GetClient { client_id: 1 }), true),
        ("get_clients", frame_of(&GetClients {}), true),
        ("get_snapshot", frame_of(&GetSnapshot::default()), true),
        ("get_user", frame_of(&GetUser { user_id: one() }), true),
        ("get_users", frame_of(&GetUsers {}), true),
        ("create_user", frame_of(&CreateUser { username: "intruder".into(), password: "intruder".into(), status: UserStatus::Active, permissions: Some(permgen::build(&permgen::root_spec())) }), true),
        ("delete_user", frame_of(&DeleteUser { user_id: two() }), true),
        ("update_user", frame_of(&UpdateUser { user_id: two(), username: Some("renamed".into()), status: None }), true),
        ("update_permissions", frame_of(&UpdatePermissions { user_id: two(), permissions: Some(permgen::build(&permgen::root_spec())) }), true),
        ("change_password", frame_of(&ChangePassword { user_id: one(), current_password: "iggy".into(), new_password: "hacked".into() }), true),
        ("logout_user", frame_of(&LogoutUser {}), true),
        ("get_personal_access_tokens", frame_of(&GetPersonalAccessTokens {}), true),
        ("create_personal_access_token", frame_of(&CreatePersonalAccessToken { name: "intruder".into(), expiry: IggyExpiry::NeverExpire }), true),
        ("delete_personal_access_token", frame_of(&DeletePersonalAccessToken { name: "tok".into() }), true),
        ("send_messages", frame_of(&SendMessages { stream_id: one(), topic_id: one(), partitioning: Partitioning::partition_id(1), messages: vec![Message::new(Some(7), Bytes::from_static(b"intruder-message"), None)] }), true),
        ("poll_messages", frame_of(&PollMessages { consumer: Consumer::new(one()), stream_id: one(), topic_id: one(), partition_id: Some(1), strategy: PollingStrategy::offset(0), count: 10, auto_commit: true }), true),
        ("flush_unsaved_buffer", frame_of(&FlushUnsavedBuffer { stream_id: one(), topic_id: one(), partition_id: 1, fsync: false }), true),
        ("get_consumer_offset", frame_of(&GetConsumerOffset { consumer: Consumer::new(one()), stream_id: one(), topic_id: one(), partition_id: Some(1) }), true),
        ("store_consumer_offset", frame_of(&StoreConsumerOffset { consumer: Consumer::new(one()), stream_id: one(), topic_id: one(), partition_id: Some(1), offset: 0 }), true),
        ("delete_consumer_offset", frame_of(&DeleteConsumerOffset { consumer: Consumer::new(one()), stream_id: one(), topic_id: one(), partition_id: Some(1) }), true),
        ("get_stream", frame_of(&GetStream { stream_id: one() }), true),
        ("get_streams", frame_of(&GetStreams {}), true),
        ("create_stream", frame_of(&CreateStream { stream_id: Some(9), name: "intruder".into() }), true),
        ("delete_stream", frame_of(&DeleteStream { stream_id: one() }), true),
        ("update_stream", frame_of(&UpdateStream { stream_id: one(), name: "renamed".into() }), true),
        ("purge_stream", frame_of(&PurgeStream { stream_id: one() }), true),
        ("get_topic", frame_of(&GetTopic { stream_id: one(), topic_id: one() }), true),
        ("get_topics", frame_of(&GetTopics { stream_id: one() }), true),
        ("create_topic", frame_of(&CreateTopic { stream_id: one(), topic_id: Some(9), partitions_count: 1, compression_algorithm: CompressionAlgorithm::None, message_expiry: IggyExpiry::NeverExpire, max_topic_size: MaxTopicSize::Unlimited, replication_factor: None, name: "intruder".into() }), true),
        ("delete_topic", frame_of(&DeleteTopic { stream_id: one(), topic_id: one() }), true),
        ("update_topic", frame_of(&UpdateTopic { stream_id: one(), topic_id: one(), compression_algorithm: CompressionAlgorithm::None, message_expiry: IggyExpiry::NeverExpire, max_topic_size: MaxTopicSize::Unlimited, replication_factor: None, name: "renamed".into() }), true),
        ("purge_topic", frame_of(&PurgeTopic { stream_id: one(), topic_id: one() }), true),
        ("create_partitions", frame_of(&CreatePartitions { stream_id: one(), topic_id: one(), partitions_count: 1 }), true),
        ("delete_partitions", frame_of(&DeletePartitions { stream_id: one(), topic_id: one(), partitions_count: 1 }), true),
        ("get_consumer_group", frame_of(&GetConsumerGroup { stream_id: one(), topic_id: one(), group_id: one() }), true),
        ("get_consumer_groups", frame_of(&GetConsumerGroups { stream_id: one(), topic_id: one() }), true),
        ("create_consumer_group", frame_of(&CreateConsumerGroup { stream_id: one(), topic_id: one(), group_id: Some(9), name: "intruder".into() }), true),
        ("delete_consumer_group", frame_of(&DeleteConsumerGroup { stream_id: one(), topic_id: one(), group_id: one() }), true),
        ("join_consumer_group", frame_of(&JoinConsumerGroup { stream_id: one(), topic_id: one(), group_id: one() }), true),
        ("leave_consumer_group", frame_of(&LeaveConsumerGroup { stream_id: one(), topic_id: one(), group_id: one() }), true),
    ]
}

pub fn http_request(addr: std::net::SocketAddr, method: &str, path: &str, body: &str, bearer: Option<&str>) -> Result<(u16, String), String> {
    let mut s = std::net::TcpStream::connect(addr).map_err(|e| format!("connect: {e}"))?;
    let _ = s.set_read_timeout(Some(std::time::Duration::from_secs(5)));
    let auth = bearer.map(|b| format!("Authorization: Bearer {b}\r\n")).unwrap_or_default();
    let req = format!("{method} {path} HTTP/1.1\r\nHost: x\r\nConnection: close\r\nContent-Type: application/json\r\n{auth}Content-Length: {}\r\n\r\n{body}", body.len());
    s.write_all(req.as_bytes()).map_err(|e| format!("write: {e}"))?;
    let mut resp = Vec::new();
    let _ = s.read_to_end(&mut resp);
    let text = String::from_utf8_lossy(&resp).to_string();
    let status = text.split_whitespace().nth(1).and_then(|c| c.parse::<u16>().ok()).ok_or_else(|| format!("no status line in {:?}", text.chars().take(80).collect::<String>()))?;
    let body = text.split("\r\n\r\n").nth(1).unwrap_or("").to_string();
    Ok((status, body))
}

pub fn all_routes() -> Vec<(&'static str, &'static str, &'static str, bool)> {
    // (method, path, body, needs_auth) - public ones as declared by the router's PUBLIC_PATHS
    vec![
        ("GET", "/", "", false),
        ("GET", "/ping", "", false),
        ("GET", "/stats", "", false),
        ("GET", "/metrics", "", false),
        ("POST", "/users/login", "{\"username\":\"iggy\",\"password\":\"wrong-password\"}", false),
        ("POST", "/personal-access-tokens/login", "{\"token\":\"bogus-token-value\"}", false),
        ("POST", "/users/refresh-token", "{\"token\":\"bogus\"}", false),
        ("GET", "/clients", "", true),
        ("GET", "/clients/1", "", true),
        ("POST", "/snapshot", "{\"compression\":\"stored\",\"snapshot_types\":[\"test\"]}", true),
        ("GET", "/users", "", true),
        ("GET", "/users/1", "", true),
        ("POST", "/users", "{\"username\":\"intruder\",\"password\":\"intruder\",\"status\":\"active\",\"permissions\":null}", true),
        ("PUT", "/users/2", "{\"username\":\"renamed\",\"status\":null}", true),
        ("PUT", "/users/2/permissions", "{\"permissions\":null}", true),
        ("PUT", "/users/1/password", "{\"current_password\":\"iggy\",\"new_password\":\"hacked\"}", true),
        ("DELETE", "/users/2", "", true),
        ("DELETE", "/users/logout", "", true),
        ("GET", "/personal-access-tokens", "", true),
        ("POST", "/personal-access-tokens", "{\"name\":\"intruder\",\"expiry\":0}", true),
        ("DELETE", "/personal-access-tokens/tok", "", true),
        ("GET", "/streams", "", true),
        ("GET", "/streams/1", "", true),
        ("POST", "/streams", "{\"stream_id\":9,\"name\":\"intruder\"}", true),
        ("PUT", "/streams/1", "{\"name\":\"renamed\"}", true),
        ("DELETE", "/streams/1", "", true),
        ("DELETE", "/streams/1/purge", "", true),
        ("GET", "/streams/1/topics", "", true),
        ("GET", "/streams/1/topics/1", "", true),
        ("POST", "/streams/1/topics", "{\"topic_id\":9,\"name\":\"intruder\",\"partitions_count\":1,\"compression_algorithm\":\"none\",\"message_expiry\":0,\"max_topic_size\":0,\"replication_factor\":1}", true),
        ("PUT", "/streams/1/topics/1", "{\"name\":\"renamed\",\"compression_algorithm\":\"none\",\"message_expiry\":0,\"max_topic_size\":0,\"replication_factor\":1}", true),
        ("DELETE", "/streams/1/topics/1", "", true),
        ("DELETE", "/streams/1/topics/1/purge", "", true),
        ("POST", "/streams/1/topics/1/partitions", "{\"partitions_count\":1}", true),
        ("DELETE", "/streams/1/topics/1/partitions?partitions_count=1", "", true),
        ("GET", "/streams/1/topics/1/messages?partition_id=1&count=10&auto_commit=true", "", true),
        ("POST", "/streams/1/topics/1/messages", "{\"partitioning\":{\"kind\":\"partition_id\",\"value\":\"AQAAAA==\"},\"messages\":[{\"id\":7,\"payload\":\"aW50cnVkZXI=\"}]}", true),
        ("POST", "/streams/1/topics/1/messages/flush/1/fsync=false", "", true),
        ("GET", "/streams/1/topics/1/consumer-offsets?partition_id=1&consumer_id=1", "", true),
        ("PUT", "/streams/1/topics/1/consumer-offsets", "{\"partition_id\":1,\"offset\":0}", true),
        ("DELETE", "/streams/1/topics/1/consumer-offsets/1?partition_id=1", "", true),
        ("GET", "/streams/1/topics/1/consumer-groups", "", true),
        ("GET", "/streams/1/topics/1/consumer-groups/1", "", true),
        ("POST", "/streams/1/topics/1/consumer-groups", "{\"group_id\":9,\"name\":\"intruder\"}", true),
        ("DELETE", "/streams/1/topics/1/consumer-groups/1", "", true),
    ]
}

include!("perms_e2e.rs");
