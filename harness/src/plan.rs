//! Which jobs decide which property, per tier.

use crate::runner::{Job, Tier};

pub fn plan(prop: &str, tier: Tier) -> Option<(&'static str, Vec<Job>)> {
    let q = tier == Tier::Quick;
    let all3: &[&'static str] = &["off", "big", "tiny"];
    let jobs = match prop {
        "C01" => vec![Job::new("partlog", if q { 1600 } else { 40_000 }).caches(all3)],
        "C02" => vec![Job::new("partlog", if q { 1600 } else { 40_000 }).caches(all3)],
        "C03" => vec![Job::new("partlog", if q { 1200 } else { 30_000 }).caches(all3)],
        "C05" => vec![Job::new("catalogue", if q { 1200 } else { 30_000 }).caches(&["off", "big"])],
        "C06" => vec![
            Job::new("catalogue", if q { 1200 } else { 30_000 }).caches(&["off", "big"]),
            Job::new("catalogue", if q { 600 } else { 15_000 }).flavour("groups").caches(&["off"]),
        ],
        "C07" => vec![Job::new("offsets", if q { 1600 } else { 40_000 }).caches(&["off", "big"])],
        "C08" => vec![
            Job::new("groupcomp", if q { 30_000 } else { 1_000_000 }),
            Job::new("groups", if q { 1200 } else { 30_000 }).caches(&["off", "big"]),
        ],
        "C09" => vec![
            Job::new("permrules", if q { 60_000 } else { 2_000_000 }),
            Job::new("authgate", if q { 24 } else { 300 }).workers(12),
            Job::new("permhist", if q { 800 } else { 20_000 }),
        ],
        "C10" => vec![Job::new("creds", if q { 2400 } else { 24_000 })],
        "C11" => vec![
            Job::new("journal-tamper", if q { 128 } else { 64 }).timeout(600).shrink(12),
            Job::new("journal-sched", if q { 1600 } else { 40_000 }).shrink(60),
        ],
        "C04" => vec![Job::new("crash", if q { 480 } else { 8_000 }).caches(&["off", "big"]).timeout(600).shrink(40)],
        "C12" => vec![Job::new("conc", if q { 2400 } else { 60_000 }).workers(8).caches(&["off", "big", "tiny"]).shrink(30)],
        "C20" => vec![Job::new("sdkclients", if q { 320 } else { 4_000 }).shrink(40)],
        "C13" => vec![
            Job::new("wire", if q { 40_000 } else { 1_500_000 }),
            Job::new("catalogue", if q { 600 } else { 6_000 }).caches(&["off", "big"]),
            Job::new("frames", if q { 1000 } else { 15_000 }).shrink(60),
            Job::new("partlog", if q { 800 } else { 16_000 }).flavour("http").caches(&["off", "big"]),
            // membership-heavy histories: responses with several group members (added after seed C13-C)
            Job::new("catalogue", if q { 400 } else { 8_000 }).flavour("groups").caches(&["off"]),
        ],
        "C14" => vec![Job::new("partlog", if q { 1400 } else { 30_000 }).caches(all3)],
        "C15" => vec![Job::new("partlog", if q { 1400 } else { 30_000 }).caches(all3)],
        "C16" => vec![
            Job::new("partlog", if q { 1200 } else { 30_000 }).caches(all3),
            // statistics and counts over a changing catalogue (several streams / topics, topics without partitions)
            Job::new("catalogue", if q { 600 } else { 12_000 }).flavour("no-users").caches(&["off", "big"]),
        ],
        "C17" => vec![Job::new("partlog", if q { 1600 } else { 40_000 }).caches(&["off", "big"])],
        "C18" => vec![
            Job::new("partlog", if q { 1400 } else { 30_000 }).caches(all3),
            Job::new("partlog", if q { 300 } else { 6_000 }).flavour("dedup-off").caches(&["off", "big"]),
        ],
        "C19" => vec![
            Job::new("partlog", if q { 1000 } else { 24_000 }).caches(&["off", "big"]),
            Job::new("crypto", if q { 20_000 } else { 600_000 }),
            // the same traffic with every other send / poll over HTTP/JSON (after seed C19-C)
            Job::new("partlog", if q { 500 } else { 8_000 }).flavour("http").caches(&["off", "big"]),
        ],
        _ => return None,
    };
    let level = if matches!(prop, "C04" | "C11") { "fault_enumeration" } else { "exploration" };
    Some((level, jobs))
}
