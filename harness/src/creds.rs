//! `creds` engine (C10): histories of user / password / token changes, clock advances and
//! restarts; after every step every credential ever seen is tried on a fresh connection.

use crate::catalogue_gen::{password_of, username_of};
use crate::common::*;
use crate::node::{self, Node, NodeCfg};
use crate::runner::{Engine, Params, Tier};
use iggy::client::{Client, PersonalAccessTokenClient, StreamClient, UserClient};
use iggy::error::IggyError;
use iggy::identifier::Identifier;
use iggy::models::user_status::UserStatus;
use iggy::tcp::client::TcpClient;
use iggy::utils::duration::IggyDuration;
use iggy::utils::expiry::IggyExpiry;
use proptest::prelude::*;
use proptest::strategy::BoxedStrategy;
use serde::{Deserialize, Serialize};
use std::collections::BTreeMap;

pub struct Creds;

#[derive(Debug, Clone, PartialEq, Serialize, Deserialize)]
pub enum KOp {
    CreateUser { name: u8, pwd: u8, active: bool },
    SetStatus { user: u16, active: bool },
    Rename { user: u16, name: u8 },
    /// one update_user command carrying a new username AND a new status
    RenameAndStatus { user: u16, name: u8, active: bool },
    ChangePassword { user: u16, by_root: bool, right_current: bool, new: u8 },
    CreateToken { user: u16, name: u8, expiry_s: Option<u16> },
    DeleteToken { user: u16, token: u16 },
    Advance { secs: u16 },
    DeleteUser { user: u16 },
    LogoutCheck { user: u16 },
    Restart,
    /// one pass of the server's expired-token cleaner
    CleanTokens,
    /// HTTP: log in, use the JWT, log out, the JWT (and a refresh with it) must be refused from then on
    HttpLogoutCheck { user: u16 },
    /// HTTP: log in, refresh the JWT: the old one is revoked, the new one works, a second refresh with the old one is refused
    HttpRefreshCheck { user: u16 },
    /// HTTP: log in and keep the JWT as an open session (checked after every step)
    HttpSession { user: u16 },
}

#[derive(Debug, Clone, PartialEq, Serialize, Deserialize)]
pub struct KCase {
    pub ops: Vec<KOp>,
}

#[derive(Debug, Clone)]
struct MTok {
    name: String,
    raw: String,
    expiry_at: Option<u64>,
}

#[derive(Debug, Clone)]
struct MUser {
    id: u32,
    name: String,
    password: String,
    active: bool,
    tokens: Vec<MTok>,
}

#[derive(Debug, Clone, PartialEq)]
enum Cred {
    Password { username: String, password: String },
    Token { raw: String },
}

struct Interp<'a> {
    case: &'a KCase,
    dir: ScratchDir,
    node: Option<Node>,
    admin: Option<TcpClient>,
    users: BTreeMap<u32, MUser>,
    creds: Vec<Cred>,
    clock: u64,
    out: Outcome,
    step: usize,
    stale_tried: bool,
    /// JWTs handed out over HTTP: (token, user id, revoked)
    jwts: Vec<(String, u32, bool)>,
}

fn json_str(s: &str) -> String {
    serde_json::to_string(s).unwrap()
}

const TOKNAMES: [&str; 4] = ["tok", "ci-token", "001", "another"];

impl<'a> Interp<'a> {
    fn fail(&self, clause: &str, d: String) -> Failure {
        let mut f = Failure::new("C10", clause, format!("step {} ({:?}): {}", self.step, self.case.ops.get(self.step), d));
        if let Some(op) = self.case.ops.get(self.step) {
            let s = format!("{:?}", op);
            f = f.tag(format!("op:{}", s.split(|c: char| !c.is_alphanumeric()).next().unwrap_or("")));
        }
        f
    }
    fn node(&self) -> &Node {
        self.node.as_ref().unwrap()
    }
    fn admin(&self) -> &TcpClient {
        self.admin.as_ref().unwrap()
    }
    fn panics(&mut self, what: &str) -> Check {
        let ps: Vec<_> = take_panics().into_iter().filter(is_repo_panic).collect();
        if let Some(p) = ps.first() {
            return Err(self.fail("server-panic", format!("{what}: {} at {}", p.message, p.location)));
        }
        Ok(())
    }
    fn start(&mut self) -> Check {
        node::set_clock(self.clock);
        match Node::start(&NodeCfg { http: true, jwt_never_expire: true, ..NodeCfg::default() }, &self.dir.path) {
            Ok(n) => self.node = Some(n),
            Err(e) => return Err(self.fail("start-failed", format!("{e:?}"))),
        }
        let root = self.users.get(&1).cloned().unwrap();
        match self.node().tcp_login(&root.name, &root.password) {
            Ok(c) => self.admin = Some(c),
            Err(e) => return Err(self.fail("root-login-failed", format!("root '{}' cannot log in with its current password: {e}", root.name))),
        }
        Ok(())
    }
    fn pick_user(&self, sel: u16, include_root: bool) -> Option<u32> {
        let v: Vec<u32> = self.users.keys().copied().filter(|k| include_root || *k != 1).collect();
        if v.is_empty() {
            None
        } else {
            Some(v[pick(sel, v.len())])
        }
    }
    fn remember(&mut self, c: Cred) {
        if !self.creds.contains(&c) {
            self.creds.push(c);
        }
    }

    /// who (if anyone) this credential authenticates right now, per the model
    fn expected_owner(&self, c: &Cred) -> Option<u32> {
        match c {
            Cred::Password { username, password } => self.users.values().find(|u| &u.name == username && &u.password == password && u.active).map(|u| u.id),
            Cred::Token { raw } => {
                for u in self.users.values() {
                    if let Some(t) = u.tokens.iter().find(|t| &t.raw == raw) {
                        let live = t.expiry_at.map(|e| e > self.clock).unwrap_or(true);
                        if live && u.active {
                            return Some(u.id);
                        }
                        return None;
                    }
                }
                None
            }
        }
    }

    /// HTTP login with a credential: Ok((user id, JWT)) or Err(status)
    fn http_try(&self, c: &Cred) -> Result<Result<(u32, String), u16>, String> {
        let addr = self.node().http_addr.unwrap();
        let (path, body) = match c {
            Cred::Password { username, password } => ("/users/login", format!("{{\"username\":{},\"password\":{}}}", json_str(username), json_str(password))),
            Cred::Token { raw } => ("/personal-access-tokens/login", format!("{{\"token\":{}}}", json_str(raw))),
        };
        let (st, body) = crate::perms::http_request(addr, "POST", path, &body, None)?;
        if st != 200 {
            return Ok(Err(st));
        }
        let v: serde_json::Value = serde_json::from_str(&body).map_err(|e| format!("login answered 200 with a body that is not JSON ({e}): {body:?}"))?;
        let uid = v.get("user_id").and_then(|x| x.as_u64()).ok_or_else(|| format!("no user_id in {body}"))? as u32;
        let tok = v.get("access_token").and_then(|t| t.get("token")).and_then(|x| x.as_str()).ok_or_else(|| format!("no access_token in {body}"))?.to_string();
        Ok(Ok((uid, tok)))
    }
    /// GET /personal-access-tokens with a JWT: Ok(names) or Err(status)
    fn http_whoami(&self, jwt: &str) -> Result<Result<Vec<String>, u16>, String> {
        let addr = self.node().http_addr.unwrap();
        let (st, body) = crate::perms::http_request(addr, "GET", "/personal-access-tokens", "", Some(jwt))?;
        if st != 200 {
            return Ok(Err(st));
        }
        let v: serde_json::Value = serde_json::from_str(&body).map_err(|e| format!("not JSON ({e}): {body:?}"))?;
        let mut names: Vec<String> = v.as_array().map(|a| a.iter().filter_map(|t| t.get("name").and_then(|n| n.as_str()).map(|s| s.to_string())).collect()).unwrap_or_default();
        names.sort();
        Ok(Ok(names))
    }
    fn model_token_names(&self, uid: u32) -> Vec<String> {
        let mut v: Vec<String> = self.users.get(&uid).map(|u| u.tokens.iter().map(|t| t.name.clone()).collect()).unwrap_or_default();
        v.sort();
        v
    }
    /// a JWT that authenticated as `uid` must act as `uid`: it lists exactly uid's tokens
    fn check_identity(&mut self, why: &str, jwt: &str, uid: u32, shown: &str) -> Check {
        match self.http_whoami(jwt).map_err(|e| self.fail("http-io", e))? {
            Ok(names) => {
                let want = self.model_token_names(uid);
                if names != want {
                    return Err(self.fail("login-as-other-identity", format!("{why}: the HTTP session opened with {shown} (user {uid}) lists the tokens {names:?}, user {uid} owns {want:?}")).tag("identity").tag("transport:http"));
                }
            }
            Err(st) => return Err(self.fail("valid-credential-refused", format!("{why}: the JWT just issued for {shown} (user {uid}) is refused with {st}")).tag("transport:http")),
        }
        Ok(())
    }
    /// every JWT handed out earlier: revoked ones and those of deleted users must be refused, the others act as their user
    fn jwt_battery(&mut self, why: &str) -> Check {
        let jwts = self.jwts.clone();
        for (jwt, uid, revoked) in jwts {
            let r = self.http_whoami(&jwt).map_err(|e| self.fail("http-io", e))?;
            self.out.count("jwt_session_checks", 1);
            let exists = self.users.contains_key(&uid);
            match (r, revoked, exists) {
                (Ok(_), true, _) => return Err(self.fail("served-after-logout", format!("{why}: a JWT of user {uid} that was revoked (logout / refresh) is accepted again")).tag("transport:http")),
                (Ok(_), false, false) => return Err(self.fail("invalid-credential-accepted", format!("{why}: a JWT issued to user {uid} is still served after the user was deleted")).tag("transport:http").tag("cred:jwt")),
                (Ok(names), false, true) => {
                    let want = self.model_token_names(uid);
                    if names != want {
                        return Err(self.fail("login-as-other-identity", format!("{why}: the open HTTP session of user {uid} lists the tokens {names:?}, the user owns {want:?}")).tag("identity").tag("transport:http"));
                    }
                }
                (Err(st), false, true) => {
                    if self.users[&uid].active {
                        return Err(self.fail("valid-credential-refused", format!("{why}: the unrevoked JWT of active user {uid} is refused with {st}")).tag("transport:http"));
                    }
                }
                (Err(_), _, _) => self.stale_tried = true,
            }
        }
        Ok(())
    }

    fn battery(&mut self, why: &str) -> Check {
        let creds = self.creds.clone();
        for c in creds {
            let want = self.expected_owner(&c);
            let cl = match self.node().tcp_client() {
                Ok(c) => c,
                Err(e) => return Err(self.fail("cannot-connect", format!("{e}"))),
            };
            let n = self.node.as_ref().unwrap();
            let r = match &c {
                Cred::Password { username, password } => n.block_on(async { cl.login_user(username, password).await }),
                Cred::Token { raw } => n.block_on(async { cl.login_with_personal_access_token(raw).await }),
            };
            let _ = n.block_on(async { cl.shutdown().await });
            self.panics("login")?;
            self.out.count("login_attempts", 1);
            let shown = match &c {
                Cred::Password { username, password } => format!("password login '{username}'/'{}'", if password.len() > 12 { "<long>" } else { password }),
                Cred::Token { raw } => format!("token {}..", &raw[..raw.len().min(6)]),
            };
            match (r, want) {
                (Ok(info), Some(owner)) => {
                    if info.user_id != owner {
                        return Err(self.fail("login-as-other-identity", format!("{why}: {shown} belongs to user {owner} but authenticated as user {}", info.user_id)).tag("identity"));
                    }
                }
                (Ok(info), None) => {
                    self.stale_tried = true;
                    return Err(self.fail("invalid-credential-accepted", format!("{why}: {shown} is not valid now (changed / expired / deleted / inactive / never existed) but authenticated as user {}", info.user_id)).tag(match c {
                        Cred::Token { .. } => "cred:token",
                        _ => "cred:password",
                    }));
                }
                (Err(e), Some(owner)) => {
                    return Err(self.fail("valid-credential-refused", format!("{why}: {shown} is the current credential of active user {owner} but was refused: {e}")).tag(match c {
                        Cred::Token { .. } => "cred:token",
                        _ => "cred:password",
                    }));
                }
                (Err(_), None) => {
                    self.stale_tried = true;
                }
            }
            // the same credential over HTTP
            let hr = self.http_try(&c).map_err(|e| self.fail("http-io", e))?;
            self.panics("http login")?;
            self.out.count("http_login_attempts", 1);
            let ctag = match c {
                Cred::Token { .. } => "cred:token",
                _ => "cred:password",
            };
            match (hr, want) {
                (Ok((uid, jwt)), Some(owner)) => {
                    if uid != owner {
                        return Err(self.fail("login-as-other-identity", format!("{why}: {shown} belongs to user {owner} but the HTTP login answered user {uid}")).tag("identity").tag("transport:http"));
                    }
                    self.check_identity(why, &jwt, owner, &shown)?;
                }
                (Ok((uid, _)), None) => return Err(self.fail("invalid-credential-accepted", format!("{why}: {shown} is not valid now but the HTTP login authenticated it as user {uid}")).tag(ctag).tag("transport:http")),
                (Err(st), Some(owner)) => return Err(self.fail("valid-credential-refused", format!("{why}: {shown} is the current credential of active user {owner} but the HTTP login answered {st}")).tag(ctag).tag("transport:http")),
                (Err(_), None) => {}
            }
        }
        self.jwt_battery(why)?;
        Ok(())
    }

    fn at_rest_scan(&mut self, why: &str) -> Check {
        use std::io::Read;
        let mut needles: Vec<(String, Vec<u8>)> = vec![];
        for c in &self.creds {
            let (label, raw) = match c {
                Cred::Password { password, .. } => ("password", password.clone()),
                Cred::Token { raw } => ("token", raw.clone()),
            };
            if raw.len() < 6 {
                continue; // too short to rule out chance occurrences (counted as excluded)
            }
            needles.push((label.to_string(), raw.clone().into_bytes()));
            needles.push((format!("{label} (base64)"), iggy::utils::text::as_base64(raw.as_bytes()).into_bytes()));
        }
        for f in list_files(&self.dir.path) {
            let mut bytes = vec![];
            if std::fs::File::open(&f).and_then(|mut h| h.read_to_end(&mut bytes)).is_err() {
                continue;
            }
            for (label, nd) in &needles {
                self.out.count("at_rest_needle_file_pairs", 1);
                if let Some(at) = find_bytes(&bytes, nd) {
                    return Err(self.fail("secret-at-rest", format!("{why}: a {label} ('{}..') is stored in clear at byte {at} of {}", String::from_utf8_lossy(&nd[..nd.len().min(6)]), f.display())));
                }
            }
        }
        Ok(())
    }

    fn run(&mut self) -> Check {
        let _ = take_panics();
        self.users.insert(1, MUser { id: 1, name: "iggy".into(), password: "iggy".into(), active: true, tokens: vec![] });
        self.remember(Cred::Password { username: "iggy".into(), password: "iggy".into() });
        self.remember(Cred::Password { username: "iggy".into(), password: "not-the-password".into() });
        self.remember(Cred::Password { username: "nobody".into(), password: "iggy".into() });
        self.remember(Cred::Token { raw: "not-a-token-at-all-0123456789".into() });
        self.start()?;
        let ops = self.case.ops.clone();
        for (i, op) in ops.iter().enumerate() {
            self.step = i;
            self.out.steps += 1;
            self.exec(op)?;
            self.panics("after step")?;
            self.battery("after step")?;
        }
        self.step = ops.len();
        self.at_rest_scan("end of case")?;
        if self.stale_tried {
            self.out.nontrivial = true;
        }
        Ok(())
    }

    fn exec(&mut self, op: &KOp) -> Check {
        match op.clone() {
            KOp::CreateUser { name, pwd, active } => {
                let name = username_of(name);
                let pwd = password_of(pwd);
                if name.len() < 3 || self.users.values().any(|u| u.name == name) {
                    return Ok(());
                }
                let n = self.node();
                let r = n.block_on(async { self.admin().create_user(&name, &pwd, if active { UserStatus::Active } else { UserStatus::Inactive }, None).await });
                match r {
                    Ok(d) => {
                        if self.users.contains_key(&d.id) {
                            return Err(self.fail("id-not-unique", format!("create_user returned live id {}", d.id)));
                        }
                        self.remember(Cred::Password { username: name.clone(), password: pwd.clone() });
                        if name.bytes().all(|b| b.is_ascii_digit()) {
                            self.out.label("digit-only-username");
                        }
                        self.users.insert(d.id, MUser { id: d.id, name, password: pwd, active, tokens: vec![] });
                    }
                    Err(e) => return Err(self.fail("create-user-failed", format!("{e}"))),
                }
                Ok(())
            }
            KOp::SetStatus { user, active } => {
                let Some(uid) = self.pick_user(user, false) else { return Ok(()) };
                let n = self.node();
                let r = n.block_on(async { self.admin().update_user(&Identifier::numeric(uid).unwrap(), None, Some(if active { UserStatus::Active } else { UserStatus::Inactive })).await });
                if let Err(e) = r {
                    return Err(self.fail("update-user-failed", format!("{e}")));
                }
                self.users.get_mut(&uid).unwrap().active = active;
                Ok(())
            }
            KOp::Rename { user, name } => {
                let Some(uid) = self.pick_user(user, false) else { return Ok(()) };
                let name = username_of(name);
                if name.len() < 3 || self.users.values().any(|u| u.name == name) {
                    return Ok(());
                }
                let n = self.node();
                let r = n.block_on(async { self.admin().update_user(&Identifier::numeric(uid).unwrap(), Some(&name), None).await });
                if let Err(e) = r {
                    return Err(self.fail("update-user-failed", format!("rename to '{name}': {e}")));
                }
                let pwd = self.users[&uid].password.clone();
                self.remember(Cred::Password { username: name.clone(), password: pwd });
                self.users.get_mut(&uid).unwrap().name = name;
                Ok(())
            }
            KOp::RenameAndStatus { user, name, active } => {
                let Some(uid) = self.pick_user(user, false) else { return Ok(()) };
                let name = username_of(name);
                if name.len() < 3 || self.users.values().any(|u| u.name == name) {
                    return Ok(());
                }
                let n = self.node();
                let st = if active { UserStatus::Active } else { UserStatus::Inactive };
                let r = n.block_on(async { self.admin().update_user(&Identifier::numeric(uid).unwrap(), Some(&name), Some(st)).await });
                if let Err(e) = r {
                    return Err(self.fail("update-user-failed", format!("rename to '{name}' with status {active}: {e}")));
                }
                let pwd = self.users[&uid].password.clone();
                self.remember(Cred::Password { username: name.clone(), password: pwd });
                let u = self.users.get_mut(&uid).unwrap();
                u.name = name;
                u.active = active;
                self.out.label("renamed-and-status-in-one-command");
                Ok(())
            }
            KOp::ChangePassword { user, by_root, right_current, new } => {
                let Some(uid) = self.pick_user(user, true) else { return Ok(()) };
                let u = self.users[&uid].clone();
                let new = password_of(new);
                let cur = if right_current { u.password.clone() } else { format!("{}x", u.password) };
                let n = self.node.as_ref().unwrap();
                let r = if by_root || uid == 1 {
                    n.block_on(async { self.admin().change_password(&Identifier::numeric(uid).unwrap(), &cur, &new).await })
                } else {
                    if !u.active {
                        return Ok(());
                    }
                    let c = match n.tcp_login(&u.name, &u.password) {
                        Ok(c) => c,
                        Err(_) => return Ok(()), // judged by the battery
                    };
                    let r = n.block_on(async { c.change_password(&Identifier::numeric(uid).unwrap(), &cur, &new).await });
                    let _ = n.block_on(async { c.shutdown().await });
                    r
                };
                match (r, right_current) {
                    (Ok(_), true) => {
                        self.users.get_mut(&uid).unwrap().password = new.clone();
                        self.remember(Cred::Password { username: u.name.clone(), password: new });
                        self.out.label("password-changed");
                    }
                    (Ok(_), false) => return Err(self.fail("password-changed-without-current", format!("change_password of user {uid} succeeded with a wrong current password"))),
                    (Err(e), true) => return Err(self.fail("change-password-refused", format!("change_password with the right current password refused: {e}"))),
                    (Err(_), false) => {}
                }
                Ok(())
            }
            KOp::CreateToken { user, name, expiry_s } => {
                let Some(uid) = self.pick_user(user, true) else { return Ok(()) };
                let u = self.users[&uid].clone();
                let name = TOKNAMES[name as usize % TOKNAMES.len()].to_string();
                if !u.active {
                    return Ok(());
                }
                // a second token under a name the user already has: the server refuses; should it accept, the model
                // holds both, and deleting the name must end the validity of both (judged by the battery)
                let duplicate = u.tokens.iter().any(|t| t.name == name);
                let n = self.node.as_ref().unwrap();
                let c = match n.tcp_login(&u.name, &u.password) {
                    Ok(c) => c,
                    Err(_) => return Ok(()), // judged by the battery
                };
                let ex = match expiry_s {
                    None => IggyExpiry::NeverExpire,
                    Some(s) => IggyExpiry::ExpireDuration(IggyDuration::from((s as u64 + 1) * 1_000_000)),
                };
                let r = n.block_on(async { c.create_personal_access_token(&name, ex).await });
                let _ = n.block_on(async { c.shutdown().await });
                match r {
                    Ok(t) => {
                        let expiry_at = expiry_s.map(|s| self.clock + (s as u64 + 1) * 1_000_000);
                        self.remember(Cred::Token { raw: t.token.clone() });
                        self.users.get_mut(&uid).unwrap().tokens.push(MTok { name, raw: t.token, expiry_at });
                        self.out.label("token-created");
                        if u.name.bytes().all(|b| b.is_ascii_digit()) {
                            self.out.label("token-of-digit-only-username");
                            self.out.nontrivial = true;
                        }
                    }
                    Err(_) if duplicate => {
                        self.out.label("duplicate-token-name-refused");
                    }
                    Err(e) => return Err(self.fail("create-token-failed", format!("{e}"))),
                }
                Ok(())
            }
            KOp::DeleteToken { user, token } => {
                let Some(uid) = self.pick_user(user, true) else { return Ok(()) };
                let u = self.users[&uid].clone();
                if !u.active || u.tokens.is_empty() {
                    return Ok(());
                }
                let t = u.tokens[pick(token, u.tokens.len())].clone();
                let n = self.node.as_ref().unwrap();
                let c = match n.tcp_login(&u.name, &u.password) {
                    Ok(c) => c,
                    Err(_) => return Ok(()),
                };
                let r = n.block_on(async { c.delete_personal_access_token(&t.name).await });
                let _ = n.block_on(async { c.shutdown().await });
                if let Err(e) = r {
                    return Err(self.fail("delete-token-failed", format!("{e}")));
                }
                self.users.get_mut(&uid).unwrap().tokens.retain(|x| x.name != t.name);
                self.out.label("token-deleted");
                Ok(())
            }
            KOp::Advance { secs } => {
                // whole seconds + 0.5 s: never lands exactly on an expiry instant
                self.clock += secs as u64 * 1_000_000 + 500_000;
                node::set_clock(self.clock);
                if self.users.values().any(|u| u.tokens.iter().any(|t| t.expiry_at.map(|e| e <= self.clock).unwrap_or(false))) {
                    self.out.label("token-expired-by-clock");
                }
                Ok(())
            }
            KOp::DeleteUser { user } => {
                let Some(uid) = self.pick_user(user, false) else { return Ok(()) };
                let n = self.node();
                let r = n.block_on(async { self.admin().delete_user(&Identifier::numeric(uid).unwrap()).await });
                if let Err(e) = r {
                    return Err(self.fail("delete-user-failed", format!("{e}")));
                }
                self.users.remove(&uid);
                self.out.label("user-deleted");
                Ok(())
            }
            KOp::LogoutCheck { user } => {
                let Some(uid) = self.pick_user(user, true) else { return Ok(()) };
                let u = self.users[&uid].clone();
                if !u.active {
                    return Ok(());
                }
                let n = self.node.as_ref().unwrap();
                let c = match n.tcp_login(&u.name, &u.password) {
                    Ok(c) => c,
                    Err(_) => return Ok(()),
                };
                let r = n.block_on(async { c.logout_user().await });
                if let Err(e) = r {
                    let _ = n.block_on(async { c.shutdown().await });
                    return Err(self.fail("logout-failed", format!("{e}")));
                }
                // the SDK refuses client-side after logout; ask the server directly with a raw frame
                let addr = n.tcp_addr;
                let _ = n.block_on(async { c.shutdown().await });
                use iggy::users::{login_user::LoginUser, logout_user::LogoutUser};
                use iggy::streams::get_streams::GetStreams;
                use iggy::bytes_serializable::BytesSerializable;
                use iggy::command::Command;
                let fr = |c: &dyn Fn() -> (u32, Vec<u8>)| c();
                let login = LoginUser { username: u.name.clone(), password: u.password.clone(), version: None, context: None };
                let frames = vec![
                    fr(&|| (login.code(), login.to_bytes().to_vec())),
                    fr(&|| (LogoutUser {}.code(), LogoutUser {}.to_bytes().to_vec())),
                    fr(&|| (GetStreams {}.code(), GetStreams {}.to_bytes().to_vec())),
                    fr(&|| (iggy::system::get_me::GetMe {}.code(), iggy::system::get_me::GetMe {}.to_bytes().to_vec())),
                ];
                let res = crate::perms::raw_request(addr, &frames);
                if !matches!(res.first(), Some(Ok((0, _)))) {
                    return Ok(()); // login itself is judged by the battery
                }
                for (k, what) in [(2usize, "get_streams"), (3, "get_me")] {
                    if let Some(Ok((0, _))) = res.get(k) {
                        return Err(self.fail("served-after-logout", format!("{what} was answered with status OK after logout on the same connection (user {uid})")));
                    }
                }
                self.out.label("logout-checked");
                Ok(())
            }
            KOp::CleanTokens => {
                self.node().clean_tokens();
                let now = self.clock;
                let mut dropped = 0;
                for u in self.users.values_mut() {
                    let before = u.tokens.len();
                    u.tokens.retain(|t| t.expiry_at.map(|e| e > now).unwrap_or(true));
                    dropped += before - u.tokens.len();
                }
                if dropped > 0 {
                    self.out.label("cleaner-removed-expired-token");
                }
                // the registry the users see equals the model: nothing live removed, nothing expired kept
                let uids: Vec<u32> = self.users.keys().copied().collect();
                for uid in uids {
                    let u = self.users[&uid].clone();
                    if !u.active {
                        continue;
                    }
                    let n = self.node.as_ref().unwrap();
                    let Ok(c) = n.tcp_login(&u.name, &u.password) else { continue };
                    let r = n.block_on(async { c.get_personal_access_tokens().await });
                    let _ = n.block_on(async { c.shutdown().await });
                    let mut got: Vec<String> = match r {
                        Ok(v) => v.into_iter().map(|t| t.name).collect(),
                        Err(e) => return Err(self.fail("get-tokens-failed", format!("{e}"))),
                    };
                    got.sort();
                    let want = self.model_token_names(uid);
                    if got != want {
                        return Err(self.fail("token-cleaner-wrong-set", format!("after a cleaner pass user {uid} has the tokens {got:?}; unexpired tokens per model: {want:?}")));
                    }
                }
                Ok(())
            }
            KOp::HttpSession { user } | KOp::HttpLogoutCheck { user } | KOp::HttpRefreshCheck { user } => {
                let Some(uid) = self.pick_user(user, true) else { return Ok(()) };
                let u = self.users[&uid].clone();
                if !u.active {
                    return Ok(());
                }
                let cred = Cred::Password { username: u.name.clone(), password: u.password.clone() };
                let Ok((got_uid, jwt)) = self.http_try(&cred).map_err(|e| self.fail("http-io", e))? else { return Ok(()) }; // judged by the battery
                if got_uid != uid {
                    return Ok(()); // judged by the battery
                }
                let addr = self.node().http_addr.unwrap();
                let io = |e: String| Failure::new("C10", "http-io", e);
                match op {
                    KOp::HttpSession { .. } => {
                        self.jwts.push((jwt, uid, false));
                        self.out.label("http-session-kept-open");
                    }
                    KOp::HttpLogoutCheck { .. } => {
                        self.check_identity("before logout", &jwt, uid, "its password")?;
                        let (st, _) = crate::perms::http_request(addr, "DELETE", "/users/logout", "", Some(&jwt)).map_err(io)?;
                        if st != 204 && st != 200 {
                            return Err(self.fail("logout-failed", format!("HTTP logout of user {uid} answered {st}")).tag("transport:http"));
                        }
                        if let Ok(_) = self.http_whoami(&jwt).map_err(io)? {
                            return Err(self.fail("served-after-logout", format!("the JWT of user {uid} is still served after DELETE /users/logout with it")).tag("transport:http"));
                        }
                        let (st, _) = crate::perms::http_request(addr, "POST", "/users/refresh-token", &format!("{{\"token\":{}}}", json_str(&jwt)), None).map_err(io)?;
                        if st == 200 {
                            return Err(self.fail("served-after-logout", format!("the JWT of user {uid} can still be refreshed into a new one after logout")).tag("transport:http"));
                        }
                        self.jwts.push((jwt, uid, true));
                        self.out.label("http-logout-checked");
                    }
                    _ => {
                        let body = format!("{{\"token\":{}}}", json_str(&jwt));
                        let (st, rb) = crate::perms::http_request(addr, "POST", "/users/refresh-token", &body, None).map_err(io)?;
                        if st != 200 {
                            return Err(self.fail("refresh-refused", format!("refreshing a fresh JWT of user {uid} answered {st}")).tag("transport:http"));
                        }
                        let v: serde_json::Value = serde_json::from_str(&rb).unwrap_or_default();
                        let new_uid = v.get("user_id").and_then(|x| x.as_u64()).unwrap_or(0) as u32;
                        let new_jwt = v.get("access_token").and_then(|t| t.get("token")).and_then(|x| x.as_str()).unwrap_or("").to_string();
                        if new_uid != uid {
                            return Err(self.fail("login-as-other-identity", format!("refreshing the JWT of user {uid} produced a JWT for user {new_uid}")).tag("identity").tag("transport:http"));
                        }
                        self.check_identity("after refresh", &new_jwt, uid, "the refreshed JWT")?;
                        if let Ok(_) = self.http_whoami(&jwt).map_err(io)? {
                            return Err(self.fail("served-after-logout", format!("the old JWT of user {uid} is still served after it was exchanged by refresh-token")).tag("transport:http"));
                        }
                        let (st2, _) = crate::perms::http_request(addr, "POST", "/users/refresh-token", &body, None).map_err(io)?;
                        if st2 == 200 {
                            return Err(self.fail("served-after-logout", format!("the old JWT of user {uid} was accepted by refresh-token a second time")).tag("transport:http"));
                        }
                        self.jwts.push((jwt, uid, true));
                        self.jwts.push((new_jwt, uid, false));
                        self.out.label("http-refresh-checked");
                    }
                }
                Ok(())
            }
            KOp::Restart => {
                if let Some(c) = self.admin.take() {
                    let _ = self.node().block_on(async { c.shutdown().await });
                }
                let node = self.node.take().unwrap();
                if let Err(e) = node.stop_clean() {
                    return Err(self.fail("shutdown-failed", format!("{e}")));
                }
                self.at_rest_scan("at restart")?;
                // by design the replay drops tokens that expired while the server was down
                let now = self.clock;
                for u in self.users.values_mut() {
                    u.tokens.retain(|t| t.expiry_at.map(|e| e > now).unwrap_or(true));
                }
                self.start()?;
                self.out.label("restart");
                Ok(())
            }
        }
    }
}

impl Engine for Creds {
    type Case = KCase;
    fn strategy(&self, p: &Params) -> BoxedStrategy<KCase> {
        let max_ops = if p.tier == Tier::Thorough { 40 } else { 24 };
        let op = prop_oneof![
            8 => (0u8..9, 0u8..5, prop_oneof![5 => Just(true), 1 => Just(false)]).prop_map(|(name, pwd, active)| KOp::CreateUser { name, pwd, active }),
            3 => (any::<u16>(), any::<bool>()).prop_map(|(user, active)| KOp::SetStatus { user, active }),
            3 => (any::<u16>(), 0u8..9).prop_map(|(user, name)| KOp::Rename { user, name }),
            3 => (any::<u16>(), 0u8..9, any::<bool>()).prop_map(|(user, name, active)| KOp::RenameAndStatus { user, name, active }),
            6 => (any::<u16>(), any::<bool>(), prop_oneof![3 => Just(true), 1 => Just(false)], 0u8..5).prop_map(|(user, by_root, right_current, new)| KOp::ChangePassword { user, by_root, right_current, new }),
            8 => (any::<u16>(), 0u8..4, prop_oneof![1 => Just(None), 2 => (0u16..120).prop_map(Some)]).prop_map(|(user, name, expiry_s)| KOp::CreateToken { user, name, expiry_s }),
            3 => (any::<u16>(), any::<u16>()).prop_map(|(user, token)| KOp::DeleteToken { user, token }),
            5 => prop_oneof![Just(1u16), Just(30), Just(61), Just(200)].prop_map(|secs| KOp::Advance { secs }),
            3 => any::<u16>().prop_map(|user| KOp::DeleteUser { user }),
            2 => any::<u16>().prop_map(|user| KOp::LogoutCheck { user }),
            3 => Just(KOp::Restart),
            2 => Just(KOp::CleanTokens),
            1 => any::<u16>().prop_map(|user| KOp::HttpLogoutCheck { user }),
            1 => any::<u16>().prop_map(|user| KOp::HttpRefreshCheck { user }),
            2 => any::<u16>().prop_map(|user| KOp::HttpSession { user }),
        ];
        proptest::collection::vec(op, 1..=max_ops).prop_map(|ops| KCase { ops }).boxed()
    }
    fn run(&self, case: &KCase, _p: &Params) -> Outcome {
        let mut it = Interp {
            case,
            dir: ScratchDir::new("creds"),
            node: None,
            admin: None,
            users: BTreeMap::new(),
            creds: vec![],
            clock: node::CLOCK_BASE_US,
            out: Outcome::default(),
            step: 0,
            stale_tried: false,
            jwts: vec![],
        };
        let r = it.run();
        let mut out = std::mem::take(&mut it.out);
        if let Some(n) = it.node.as_ref() {
            if let Some(c) = it.admin.take() {
                let _ = n.block_on(async { c.shutdown().await });
            }
        }
        if let Some(n) = it.node.take() {
            n.kill();
        }
        node::disarm_clock();
        let _ = take_panics();
        if let Err(f) = r {
            out.failure = Some(f);
        }
        out
    }
    fn rule(&self, _p: &Params) -> String {
        "case = generated history of create user (active/inactive; usernames incl. digit-only and zero-padded ones such as '001'), status change, rename, both in one command, password change (own / by root, right / wrong current password), token creation (never / expiring) and deletion, clock advances across expiry (frozen clock, hook H2), user deletion, logout, restart, passes of the expired-token cleaner, and over HTTP: login + logout, login + refresh-token, sessions kept open; after EVERY step every credential the harness has ever seen (current, stale, expired, deleted, other users', bogus) is tried on a fresh TCP connection AND over HTTP: it must authenticate iff the model says it is valid now AND as its owner's user id (over HTTP the issued JWT must list exactly its owner's tokens), every JWT handed out earlier must be refused once revoked (logout / refresh) or once its user is deleted - also after a restart - and must otherwise still act as its user; after a cleaner pass every user's token list equals the model's unexpired tokens; at restart and at the end every file under the data directory is searched for every password and raw token (plain and base64); non-trivial = >=1 login attempt with a credential that is not valid at that moment, or a token owned by a digit-only username".into()
    }
    fn assumptions(&self, _p: &Params) -> Vec<String> {
        vec!["secrets shorter than 6 bytes are not searched for at rest (chance occurrences)".into(), "clock advances are whole seconds + 0.5 s so no login happens exactly at an expiry instant".into()]
    }
}
