//! `frames` check (C13 d): malformed frames sent on connection A at a generated point of a
//! valid session; witnesses B (already open) and C (new) must keep working, the catalogue and
//! the logs must be unchanged.

use crate::common::*;
use crate::node::{Node, NodeCfg};
use crate::perms::all_commands;
use crate::runner::{Engine, Params};
use bytes::Bytes;
use iggy::client::{Client, MessageClient, StreamClient, SystemClient, TopicClient, UserClient};
use iggy::compression::compression_algorithm::CompressionAlgorithm;
use iggy::consumer::Consumer;
use iggy::error::IggyError;
use iggy::identifier::Identifier;
use iggy::messages::poll_messages::PollingStrategy;
use iggy::messages::send_messages::{Message, Partitioning};
use iggy::utils::expiry::IggyExpiry;
use iggy::utils::topic_size::MaxTopicSize;
use proptest::prelude::*;
use proptest::strategy::BoxedStrategy;
use serde::{Deserialize, Serialize};
use std::io::{Read, Write};

pub struct Frames;

#[derive(Debug, Clone, PartialEq, Serialize, Deserialize)]
pub enum Mutation {
    /// keep the frame but cut its payload to this fraction
    TruncatePayload(u16),
    /// declared length larger / smaller than the body by delta
    LengthDelta(i16),
    /// replace the command code
    Code(u32),
    /// overwrite payload bytes (position selector, value)
    Bytes(Vec<(u16, u8)>),
    /// raw bytes instead of a frame
    Raw(Vec<u8>),
    /// a huge declared length with a tiny body
    HugeLength(u32),
    /// append garbage after a valid frame
    Trailing(Vec<u8>),
}

#[derive(Debug, Clone, PartialEq, Serialize, Deserialize)]
pub struct FCase {
    /// is connection A logged in before the malformed frames?
    pub logged_in: bool,
    /// (command selector, mutation) list
    pub frames: Vec<(u8, Mutation)>,
}

fn snapshot(node: &Node, c: &iggy::tcp::client::TcpClient) -> Result<String, String> {
    let one = Identifier::numeric(1).unwrap();
    node.block_on(async {
        let streams = c.get_streams().await.map_err(|e| e.to_string())?;
        let users = c.get_users().await.map_err(|e| e.to_string())?;
        let topic = c.get_topic(&one, &one).await.map_err(|e| e.to_string())?;
        let pm = c.poll_messages(&one, &one, Some(1), &Consumer::new(Identifier::numeric(3).unwrap()), &PollingStrategy::offset(0), 100, false).await.map_err(|e| e.to_string())?;
        let mut s: Vec<String> = streams.iter().map(|s| format!("{}:{}:{}", s.id, s.name, s.topics_count)).collect();
        s.sort();
        let mut u: Vec<String> = users.iter().map(|u| format!("{}:{}", u.id, u.username)).collect();
        u.sort();
        Ok(format!("{:?} {:?} {:?} msgs={:?}", s, u, topic.map(|t| (t.id, t.name, t.partitions_count, t.messages_count)), pm.messages.iter().map(|m| (m.offset, m.payload.len())).collect::<Vec<_>>()))
    })
}

impl Engine for Frames {
    type Case = FCase;
    fn strategy(&self, _p: &Params) -> BoxedStrategy<FCase> {
        let m = prop_oneof![
            3 => any::<u16>().prop_map(Mutation::TruncatePayload),
            3 => (-40i16..400).prop_map(Mutation::LengthDelta),
            2 => prop_oneof![Just(0u32), Just(9999), Just(u32::MAX), 0u32..700].prop_map(Mutation::Code),
            4 => proptest::collection::vec((any::<u16>(), any::<u8>()), 1..6).prop_map(Mutation::Bytes),
            2 => proptest::collection::vec(any::<u8>(), 0..40).prop_map(Mutation::Raw),
            // (declared lengths up to 64 MB: the server allocates and zeroes the declared length before reading,
            // see DESIGN 7 - larger values would only measure this machine's memory)
            1 => prop_oneof![Just(64_000_000u32), Just(1_000_000), Just(100_000u32)].prop_map(Mutation::HugeLength),
            1 => proptest::collection::vec(any::<u8>(), 1..20).prop_map(Mutation::Trailing),
        ];
        (any::<bool>(), proptest::collection::vec((any::<u8>(), m), 1..6)).prop_map(|(logged_in, frames)| FCase { logged_in, frames }).boxed()
    }
    fn run(&self, case: &FCase, _p: &Params) -> Outcome {
        let mut out = Outcome::default();
        let _ = take_panics();
        let dir = ScratchDir::new("frames");
        let node = match Node::start(&NodeCfg { save_threshold: 1, ..NodeCfg::default() }, &dir.path) {
            Ok(n) => n,
            Err(e) => {
                out.inconclusive = Some(format!("{e:?}"));
                return out;
            }
        };
        let r = (|| -> Check {
            let fail = |c: &str, d: String| Failure::new("C13", c, d);
            let b = node.tcp_root().map_err(|e| fail("setup", e.to_string()))?;
            node.block_on(async {
                let one = Identifier::numeric(1).unwrap();
                b.create_stream("s1", Some(1)).await?;
                b.create_topic(&one, "t1", 1, CompressionAlgorithm::None, None, Some(1), IggyExpiry::NeverExpire, MaxTopicSize::Unlimited).await?;
                b.create_user("victim", "victim-pw", iggy::models::user_status::UserStatus::Active, None).await?;
                let mut ms = vec![Message::new(Some(1), Bytes::from_static(b"m1"), None), Message::new(Some(2), Bytes::from_static(b"m22"), None)];
                b.send_messages(&one, &one, &Partitioning::partition_id(1), &mut ms).await?;
                Ok::<(), IggyError>(())
            })
            .map_err(|e| fail("setup", e.to_string()))?;
            let before = snapshot(&node, &b).map_err(|e| fail("setup", e))?;
            // connection A
            let mut a = std::net::TcpStream::connect(node.tcp_addr).map_err(|e| fail("setup", e.to_string()))?;
            let _ = a.set_read_timeout(Some(std::time::Duration::from_millis(150)));
            let _ = a.set_write_timeout(Some(std::time::Duration::from_millis(150)));
            let cmds = all_commands();
            if case.logged_in {
                use iggy::bytes_serializable::BytesSerializable;
                use iggy::command::Command;
                // A authenticates as a user WITHOUT permissions: even a frame that stays valid after the mutation must be refused
                let l = iggy::users::login_user::LoginUser { username: "victim".into(), password: "victim-pw".into(), version: None, context: None };
                let p = l.to_bytes();
                let mut f = Vec::new();
                f.extend_from_slice(&((p.len() + 4) as u32).to_le_bytes());
                f.extend_from_slice(&l.code().to_le_bytes());
                f.extend_from_slice(&p);
                let _ = a.write_all(&f);
                let mut head = [0u8; 8];
                let _ = a.read_exact(&mut head);
                let len = u32::from_le_bytes(head[4..8].try_into().unwrap()) as usize;
                let mut body = vec![0u8; len.min(4096)];
                let _ = a.read_exact(&mut body);
            }
            let mut past_code = false;
            for (sel, m) in &case.frames {
                out.steps += 1;
                let (_, (code, payload), _) = &cmds[*sel as usize % cmds.len()];
                let mut code = *code;
                let mut payload = payload.clone();
                let mut declared: i64 = -1;
                let mut raw: Option<Vec<u8>> = None;
                let mut trailing: Vec<u8> = vec![];
                match m {
                    Mutation::TruncatePayload(f) => {
                        let k = ((*f as usize) * payload.len()) >> 16;
                        payload.truncate(k);
                        past_code = true;
                    }
                    Mutation::LengthDelta(d) => declared = (payload.len() as i64 + 4 + *d as i64).max(0),
                    Mutation::Code(c) => code = *c,
                    Mutation::Bytes(bs) => {
                        for (pos, v) in bs {
                            if !payload.is_empty() {
                                let i = pick(*pos, payload.len());
                                payload[i] = *v;
                            }
                        }
                        past_code = true;
                    }
                    Mutation::Raw(r) => raw = Some(r.clone()),
                    Mutation::HugeLength(l) => declared = *l as i64,
                    Mutation::Trailing(t) => trailing = t.clone(),
                }
                let bytes = match raw {
                    Some(r) => r,
                    None => {
                        let mut f = Vec::new();
                        let len = if declared >= 0 { declared as u32 } else { (payload.len() + 4) as u32 };
                        f.extend_from_slice(&len.to_le_bytes());
                        f.extend_from_slice(&code.to_le_bytes());
                        f.extend_from_slice(&payload);
                        f.extend_from_slice(&trailing);
                        f
                    }
                };
                if a.write_all(&bytes).is_err() {
                    break; // closed: allowed
                }
                // read whatever comes (an error status, a response, or nothing / close)
                let mut buf = [0u8; 4096];
                let _ = a.read(&mut buf);
            }
            drop(a);
            node.settle(20);
            // panics: the statement allows a malformed frame to kill its own connection (task); they are counted
            let ps: Vec<_> = take_panics().into_iter().filter(is_repo_panic).collect();
            out.count("panics_in_connection_task", ps.len() as u64);
            // witness B (already open) and C (new) keep working; everything is unchanged
            node.block_on(async { b.ping().await }).map_err(|e| fail("witness-connection-broken", format!("the already open connection B no longer answers ping: {e}; panics: {:?}", ps.first())))?;
            let c = node.tcp_root().map_err(|e| fail("new-connection-refused", format!("a new connection C cannot log in after the malformed frames: {e}; panics: {:?}", ps.first())))?;
            let after_b = snapshot(&node, &b).map_err(|e| fail("witness-connection-broken", e))?;
            let after_c = snapshot(&node, &c).map_err(|e| fail("new-connection-refused", e))?;
            // a logged-in connection may legitimately have executed a frame that stayed VALID after the mutation
            // (e.g. a byte overwritten by the same value, trailing bytes forming nothing): only unauthenticated
            // sessions are held to "unchanged"; authenticated ones to "B and C agree and the server is alive"
            if before != after_b {
                return Err(fail("malformed-frame-changed-state", format!("before: {before}\nafter:  {after_b}")));
            }
            if after_b != after_c {
                return Err(fail("connections-disagree", format!("B sees {after_b}\nC sees {after_c}")));
            }
            // a fresh send / poll still works (logs usable)
            let one = Identifier::numeric(1).unwrap();
            if let Ok(Some(_)) = node.block_on(async { c.get_topic(&one, &one).await }) {
                let mut ms = vec![Message::new(None, Bytes::from_static(b"after"), None)];
                node.block_on(async { c.send_messages(&one, &one, &Partitioning::partition_id(1), &mut ms).await }).map_err(|e| fail("send-after-malformed-frames-fails", e.to_string()))?;
            }
            let _ = node.block_on(async { c.shutdown().await });
            let _ = node.block_on(async { b.shutdown().await });
            if past_code {
                out.nontrivial = true;
                out.label("frame-decoded-past-command-code");
            }
            if case.logged_in {
                out.label("authenticated-session");
            }
            Ok(())
        })();
        node.kill();
        let _ = take_panics();
        if let Err(f) = r {
            out.failure = Some(f);
        }
        out
    }
    fn rule(&self, _p: &Params) -> String {
        "case = a TCP session A (not logged in, or logged in as a user without any permission) that sends 1..5 malformed frames derived from valid instances of all 45 commands (payload truncated, declared length too large / too small / huge, unknown command code, payload bytes overwritten, raw garbage, trailing garbage); oracle: the already open witness connection B still answers, a new connection C can log in, B and C see the same catalogue and log content, that content is exactly what it was before, and a send still works; panics confined to A's connection task are tolerated and counted; non-trivial = a frame that is decoded past its command code before being rejected".into()
    }
}
