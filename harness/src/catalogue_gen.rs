//! Case types and generators of the `catalogue` engine (C05 C06 C13b, catalogue part of C16/C19).

use crate::node::NodeCfg;
use crate::permgen::{perm_spec, PermSpec};
use crate::runner::{Params, Tier};
use proptest::prelude::*;
use serde::{Deserialize, Serialize};

#[derive(Debug, Clone, Copy, PartialEq, Serialize, Deserialize)]
pub enum Via {
    Tcp,
    Http,
}

/// reference to an entity of a scope: the k-th live one, by id or by name, or a missing one
#[derive(Debug, Clone, PartialEq, Serialize, Deserialize)]
pub enum Ref {
    ById(u16),
    ByName(u16),
    MissingId,
    MissingName,
}

#[derive(Debug, Clone, PartialEq, Serialize, Deserialize)]
pub enum IdChoice {
    Server,
    /// an explicit id not in use: the n-th free id counted from 1
    Fresh(u8),
    /// the id of the k-th live entity (must be refused)
    Taken(u16),
}

#[derive(Debug, Clone, PartialEq, Serialize, Deserialize)]
pub enum COp {
    CreateStream { via: Via, name: u8, id: IdChoice },
    UpdateStream { via: Via, target: Ref, name: u8 },
    DeleteStream { via: Via, target: Ref },
    PurgeStream { via: Via, target: Ref },
    CreateTopic { via: Via, stream: Ref, name: u8, id: IdChoice, partitions: u8, expiry: u8, max_size: u8, repl: Option<u8> },
    UpdateTopic { via: Via, stream: Ref, topic: Ref, name: u8, expiry: u8, max_size: u8, repl: Option<u8> },
    DeleteTopic { via: Via, stream: Ref, topic: Ref },
    PurgeTopic { via: Via, stream: Ref, topic: Ref },
    CreatePartitions { via: Via, stream: Ref, topic: Ref, n: u8 },
    DeletePartitions { via: Via, stream: Ref, topic: Ref, n: u8 },
    CreateGroup { via: Via, stream: Ref, topic: Ref, name: u8, id: IdChoice },
    DeleteGroup { via: Via, stream: Ref, topic: Ref, group: Ref },
    Join { client: u8, stream: Ref, topic: Ref, group: Ref },
    Leave { client: u8, stream: Ref, topic: Ref, group: Ref },
    Disconnect { client: u8 },
    Send { stream: Ref, topic: Ref, n: u8 },
    /// store the offset of the newest message of partition 1 for consumer `who` (1..=2) or, with `group`, for that consumer group
    StoreOffset { stream: Ref, topic: Ref, who: u8, group: Option<Ref> },
    CreateUser { via: Via, name: u8, pwd: u8, active: bool, perms: Option<PermSpec> },
    UpdateUser { via: Via, user: Ref, name: Option<u8>, active: Option<bool> },
    UpdatePerms { via: Via, user: Ref, perms: Option<PermSpec> },
    ChangePassword { via: Via, user: Ref, right_current: bool, new: u8 },
    DeleteUser { via: Via, user: Ref },
    CreatePat { via: Via, name: u8, expiry_s: Option<u32> },
    DeletePat { via: Via, name: u8 },
    Restart,
}

#[derive(Debug, Clone, PartialEq, Serialize, Deserialize)]
pub struct CCase {
    pub cfg: NodeCfg,
    pub ops: Vec<COp>,
}

pub const NAMES: [&str; 12] = ["a", "b", "c", "7", "001", "Alpha", "alpha", "LONG255", "long-name-0123456789_ABC", "d.e", "z9", "12"];
pub const USERNAMES: [&str; 9] = ["usr", "001", "123", "user_b", "UserC", "LONG50", "bob", "2", "alice-x"];
pub const PASSWORDS: [&str; 5] = ["pw1", "secret-2", "LONG100", "123", "Zx9-qwertz!"];
pub const PATNAMES: [&str; 5] = ["tok", "t2", "001", "LONG30", "ci-token"];

pub fn name_of(i: u8) -> String {
    let n = NAMES[i as usize % NAMES.len()];
    if n == "LONG255" {
        "n".repeat(255)
    } else {
        n.to_string()
    }
}
pub fn username_of(i: u8) -> String {
    let n = USERNAMES[i as usize % USERNAMES.len()];
    if n == "LONG50" {
        "u".repeat(50)
    } else {
        n.to_string()
    }
}
pub fn password_of(i: u8) -> String {
    let n = PASSWORDS[i as usize % PASSWORDS.len()];
    if n == "LONG100" {
        "p".repeat(100)
    } else {
        n.to_string()
    }
}
pub fn patname_of(i: u8) -> String {
    let n = PATNAMES[i as usize % PATNAMES.len()];
    if n == "LONG30" {
        "k".repeat(30)
    } else {
        n.to_string()
    }
}

fn via(p: &Params) -> BoxedStrategy<Via> {
    if p.flavour == "tcp-only" {
        Just(Via::Tcp).boxed()
    } else {
        prop_oneof![3 => Just(Via::Tcp), 2 => Just(Via::Http)].boxed()
    }
}

fn rf() -> BoxedStrategy<Ref> {
    prop_oneof![
        8 => any::<u16>().prop_map(Ref::ById),
        8 => any::<u16>().prop_map(Ref::ByName),
        1 => Just(Ref::MissingId),
        1 => Just(Ref::MissingName),
    ]
    .boxed()
}

fn idc() -> BoxedStrategy<IdChoice> {
    prop_oneof![
        5 => Just(IdChoice::Server),
        4 => (0u8..4).prop_map(IdChoice::Fresh),
        1 => any::<u16>().prop_map(IdChoice::Taken),
    ]
    .boxed()
}

pub fn op_strategy(p: &Params) -> BoxedStrategy<COp> {
    let users = !matches!(p.flavour.as_str(), "no-users" | "groups");
    if p.flavour == "groups" {
        // membership-heavy histories: few streams/topics, many groups and joins, then deletions
        let v: Vec<(u32, BoxedStrategy<COp>)> = vec![
            (4, (via(p), 0u8..4, idc()).prop_map(|(via, name, id)| COp::CreateStream { via, name, id }).boxed()),
            (6, (via(p), rf(), 0u8..4, idc(), 1u8..4).prop_map(|(via, stream, name, id, partitions)| COp::CreateTopic { via, stream, name, id, partitions, expiry: 1, max_size: 1, repl: None }).boxed()),
            (12, (via(p), rf(), rf(), 0u8..8, idc()).prop_map(|(via, stream, topic, name, id)| COp::CreateGroup { via, stream, topic, name, id }).boxed()),
            (20, (0u8..2, rf(), rf(), rf()).prop_map(|(client, stream, topic, group)| COp::Join { client, stream, topic, group }).boxed()),
            (3, (0u8..2, rf(), rf(), rf()).prop_map(|(client, stream, topic, group)| COp::Leave { client, stream, topic, group }).boxed()),
            (4, (via(p), rf()).prop_map(|(via, target)| COp::DeleteStream { via, target }).boxed()),
            (5, (via(p), rf(), rf()).prop_map(|(via, stream, topic)| COp::DeleteTopic { via, stream, topic }).boxed()),
            (3, (via(p), rf(), rf(), rf()).prop_map(|(via, stream, topic, group)| COp::DeleteGroup { via, stream, topic, group }).boxed()),
            (2, (0u8..2).prop_map(|client| COp::Disconnect { client }).boxed()),
            (2, (via(p), rf(), rf(), 1u8..3).prop_map(|(via, stream, topic, n)| COp::DeletePartitions { via, stream, topic, n }).boxed()),
            (10, (rf(), rf(), 1u8..=2, prop_oneof![1 => Just(None), 3 => rf().prop_map(Some)]).prop_map(|(stream, topic, who, group)| COp::StoreOffset { stream, topic, who, group }).boxed()),
            (1, (via(p), rf(), rf()).prop_map(|(via, stream, topic)| COp::PurgeTopic { via, stream, topic }).boxed()),
            (1, Just(COp::Restart).boxed()),
        ];
        return proptest::strategy::Union::new_weighted(v).boxed();
    }
    let mut v: Vec<(u32, BoxedStrategy<COp>)> = vec![
        (10, (via(p), 0u8..12, idc()).prop_map(|(via, name, id)| COp::CreateStream { via, name, id }).boxed()),
        (5, (via(p), rf(), 0u8..12).prop_map(|(via, target, name)| COp::UpdateStream { via, target, name }).boxed()),
        (5, (via(p), rf()).prop_map(|(via, target)| COp::DeleteStream { via, target }).boxed()),
        (2, (via(p), rf()).prop_map(|(via, target)| COp::PurgeStream { via, target }).boxed()),
        (
            12,
            (via(p), rf(), 0u8..12, idc(), 0u8..4, 0u8..4, 0u8..4, prop_oneof![Just(None), (1u8..4).prop_map(Some)])
                .prop_map(|(via, stream, name, id, partitions, expiry, max_size, repl)| COp::CreateTopic { via, stream, name, id, partitions, expiry, max_size, repl })
                .boxed(),
        ),
        (
            7,
            (via(p), rf(), rf(), 0u8..12, 0u8..4, 0u8..4, prop_oneof![Just(None), (1u8..4).prop_map(Some)])
                .prop_map(|(via, stream, topic, name, expiry, max_size, repl)| COp::UpdateTopic { via, stream, topic, name, expiry, max_size, repl })
                .boxed(),
        ),
        (5, (via(p), rf(), rf()).prop_map(|(via, stream, topic)| COp::DeleteTopic { via, stream, topic }).boxed()),
        (2, (via(p), rf(), rf()).prop_map(|(via, stream, topic)| COp::PurgeTopic { via, stream, topic }).boxed()),
        (4, (via(p), rf(), rf(), 1u8..4).prop_map(|(via, stream, topic, n)| COp::CreatePartitions { via, stream, topic, n }).boxed()),
        (4, (via(p), rf(), rf(), 1u8..5).prop_map(|(via, stream, topic, n)| COp::DeletePartitions { via, stream, topic, n }).boxed()),
        (8, (via(p), rf(), rf(), 0u8..12, idc()).prop_map(|(via, stream, topic, name, id)| COp::CreateGroup { via, stream, topic, name, id }).boxed()),
        (4, (via(p), rf(), rf(), rf()).prop_map(|(via, stream, topic, group)| COp::DeleteGroup { via, stream, topic, group }).boxed()),
        (8, (0u8..3, rf(), rf(), rf()).prop_map(|(client, stream, topic, group)| COp::Join { client, stream, topic, group }).boxed()),
        (3, (0u8..3, rf(), rf(), rf()).prop_map(|(client, stream, topic, group)| COp::Leave { client, stream, topic, group }).boxed()),
        (2, (0u8..3).prop_map(|client| COp::Disconnect { client }).boxed()),
        (6, (rf(), rf(), 1u8..6).prop_map(|(stream, topic, n)| COp::Send { stream, topic, n }).boxed()),
        (9, (rf(), rf(), 1u8..=2, prop_oneof![1 => Just(None), 2 => rf().prop_map(Some)]).prop_map(|(stream, topic, who, group)| COp::StoreOffset { stream, topic, who, group }).boxed()),
        (6, Just(COp::Restart).boxed()),
    ];
    if users {
        v.extend(vec![
            (
                6,
                (via(p), 0u8..9, 0u8..5, prop_oneof![4 => Just(true), 1 => Just(false)], prop_oneof![1 => Just(None), 3 => perm_spec(3, 3).prop_map(Some)])
                    .prop_map(|(via, name, pwd, active, perms)| COp::CreateUser { via, name, pwd, active, perms })
                    .boxed(),
            ),
            (
                3,
                (via(p), rf(), prop_oneof![Just(None), (0u8..9).prop_map(Some)], prop_oneof![Just(None), any::<bool>().prop_map(Some)])
                    .prop_map(|(via, user, name, active)| COp::UpdateUser { via, user, name, active })
                    .boxed(),
            ),
            (3, (via(p), rf(), prop_oneof![1 => Just(None), 3 => perm_spec(3, 3).prop_map(Some)]).prop_map(|(via, user, perms)| COp::UpdatePerms { via, user, perms }).boxed()),
            (3, (via(p), rf(), prop_oneof![3 => Just(true), 1 => Just(false)], 0u8..5).prop_map(|(via, user, right_current, new)| COp::ChangePassword { via, user, right_current, new }).boxed()),
            (3, (via(p), rf()).prop_map(|(via, user)| COp::DeleteUser { via, user }).boxed()),
            (3, (via(p), 0u8..5, prop_oneof![Just(None), (1u32..100_000).prop_map(Some)]).prop_map(|(via, name, expiry_s)| COp::CreatePat { via, name, expiry_s }).boxed()),
            (2, (via(p), 0u8..5).prop_map(|(via, name)| COp::DeletePat { via, name }).boxed()),
        ]);
    }
    proptest::strategy::Union::new_weighted(v).boxed()
}

pub fn case_strategy(p: &Params) -> BoxedStrategy<CCase> {
    let max_ops = if p.tier == Tier::Thorough { 60 } else { 40 };
    let http = p.flavour != "tcp-only";
    let enc = p.property == "C19";
    (
        prop_oneof![Just(1u32), Just(3), Just(1000)],
        prop_oneof![Just(600u64), Just(20_000), Just(1_000_000)],
        any::<bool>(),
        proptest::collection::vec(op_strategy(p), 1..=max_ops),
    )
        .prop_map(move |(thr, seg, ci, ops)| CCase {
            cfg: NodeCfg {
                save_threshold: thr,
                segment_size: seg,
                cache_indexes: ci,
                http,
                encryption: if enc { 1 } else { 0 },
                ..NodeCfg::default()
            },
            ops,
        })
        .boxed()
}
