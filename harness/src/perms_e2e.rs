// included into perms.rs: end-to-end parts of C09

// ------------------------------------------------------------------ authgate

pub struct AuthGate;

#[derive(Debug, Clone, PartialEq, Serialize, Deserialize)]
pub struct ACase {
    /// 0 = fresh connection, 1 = logged in then logged out, 2 = logged in as a user that root then deleted
    pub state: u8,
    /// rotation of the command order (the outcome must not depend on it)
    pub rot: u8,
}

struct World {
    dir: ScratchDir,
    node: Node,
    admin: iggy::tcp::client::TcpClient,
}

fn build_world(http: bool) -> Result<World, String> {
    let dir = ScratchDir::new("auth");
    let cfg = NodeCfg { http, save_threshold: 1, ..NodeCfg::default() };
    let node = Node::start(&cfg, &dir.path).map_err(|e| format!("{e:?}"))?;
    let admin = node.tcp_root().map_err(|e| format!("{e}"))?;
    let r: Result<(), IggyError> = node.block_on(async {
        let one = Identifier::numeric(1).unwrap();
        admin.create_stream("s1", Some(1)).await?;
        admin.create_topic(&one, "t1", 1, CompressionAlgorithm::None, None, Some(1), IggyExpiry::NeverExpire, MaxTopicSize::Unlimited).await?;
        // a topic whose id differs from its stream's, and a second stream whose id equals that topic id: a rule called
        // with (topic id, stream id) instead of (stream id, topic id) then consults another stream's record
        admin.create_topic(&one, "t2", 3, CompressionAlgorithm::None, None, Some(2), IggyExpiry::NeverExpire, MaxTopicSize::Unlimited).await?;
        admin.create_stream("s2", Some(2)).await?;
        admin.create_topic(&Identifier::numeric(2).unwrap(), "u1", 1, CompressionAlgorithm::None, None, Some(1), IggyExpiry::NeverExpire, MaxTopicSize::Unlimited).await?;
        iggy::client::ConsumerGroupClient::create_consumer_group(&admin, &one, &one, "g1", Some(1)).await?;
        admin.create_user("victim", "victim-pw", UserStatus::Active, None).await?;
        iggy::client::PersonalAccessTokenClient::create_personal_access_token(&admin, "tok", IggyExpiry::NeverExpire).await?;
        let mut ms = vec![Message::new(Some(1), Bytes::from_static(b"m1"), None), Message::new(Some(2), Bytes::from_static(b"m2"), None), Message::new(Some(3), Bytes::from_static(b"m3"), None)];
        admin.send_messages(&one, &one, &Partitioning::partition_id(1), &mut ms).await?;
        iggy::client::ConsumerOffsetClient::store_consumer_offset(&admin, &Consumer::new(one.clone()), &one, &one, Some(1), 1).await?;
        Ok(())
    });
    r.map_err(|e| format!("setup: {e}"))?;
    Ok(World { dir, node, admin })
}

fn world_snapshot(w: &World) -> Result<String, String> {
    let one = Identifier::numeric(1).unwrap();
    let login = match w.node.tcp_login("iggy", "iggy") {
        Ok(c) => {
            let _ = w.node.block_on(async { c.shutdown().await });
            true
        }
        Err(_) => false,
    };
    w.node.block_on(async {
        let streams = w.admin.get_streams().await.map_err(|e| e.to_string())?;
        let topic = w.admin.get_topic(&one, &one).await.map_err(|e| e.to_string())?;
        let users = w.admin.get_users().await.map_err(|e| e.to_string())?;
        let pats = iggy::client::PersonalAccessTokenClient::get_personal_access_tokens(&w.admin).await.map_err(|e| e.to_string())?;
        let groups = iggy::client::ConsumerGroupClient::get_consumer_groups(&w.admin, &one, &one).await.map_err(|e| e.to_string())?;
        let off = iggy::client::ConsumerOffsetClient::get_consumer_offset(&w.admin, &Consumer::new(one.clone()), &one, &one, Some(1)).await.map_err(|e| e.to_string())?;
        let mut s: Vec<String> = streams.iter().map(|s| format!("{}:{}:{}", s.id, s.name, s.topics_count)).collect();
        s.sort();
        let mut u: Vec<String> = users.iter().map(|u| format!("{}:{}:{}", u.id, u.username, u.status)).collect();
        u.sort();
        let mut g: Vec<String> = groups.iter().map(|g| format!("{}:{}:{}", g.id, g.name, g.members_count)).collect();
        g.sort();
        Ok(format!(
            "streams={:?} topic={:?} users={:?} pats={} groups={:?} offset={:?} root-password-still-iggy={}",
            s,
            topic.map(|t| format!("{}:{}:p{}:m{}", t.id, t.name, t.partitions_count, t.messages_count)),
            u,
            pats.len(),
            g,
            off.map(|o| o.stored_offset),
            login
        ))
    })
}

impl Engine for AuthGate {
    type Case = ACase;
    fn strategy(&self, _p: &Params) -> BoxedStrategy<ACase> {
        (0u8..3, any::<u8>()).prop_map(|(state, rot)| ACase { state, rot }).boxed()
    }
    fn run(&self, case: &ACase, _p: &Params) -> Outcome {
        let mut out = Outcome::default();
        let _ = take_panics();
        let w = match build_world(true) {
            Ok(w) => w,
            Err(e) => {
                out.inconclusive = Some(format!("authgate setup failed: {e}"));
                return out;
            }
        };
        let r = authgate_run(case, &w, &mut out);
        let _ = w.node.block_on(async { w.admin.shutdown().await });
        let World { dir, node, admin } = w;
        drop(admin);
        node.kill();
        drop(dir);
        let _ = take_panics();
        if let Err(f) = r {
            out.failure = Some(f);
        }
        out
    }
    fn rule(&self, _p: &Params) -> String {
        "case = (connection state: fresh / logged in then logged out / logged in as a user that was then deleted; rotation of the command order); on that connection one valid instance of EVERY binary command (45) is sent as a raw frame and EVERY HTTP route (45) is requested without and with a bogus bearer token: all but ping / login / token login and the router's declared public paths must be refused, and a snapshot of streams, topic, users, tokens, groups, stored offset, message count and root's password must be unchanged; every case is non-trivial; the space of (state x command) is enumerated completely in every case".into()
    }
}

fn authgate_run(case: &ACase, w: &World, out: &mut Outcome) -> Check {
    use iggy::users::{login_user::LoginUser, logout_user::LogoutUser};
    let before = world_snapshot(w).map_err(|e| Failure::new("C09", "setup", e))?;
    let mut cmds = all_commands();
    let k = case.rot as usize % cmds.len();
    cmds.rotate_left(k);
    let mut frames: Vec<(u32, Vec<u8>)> = vec![];
    let mut skip = 0;
    match case.state {
        1 => {
            frames.push(frame_of(&LoginUser { username: "iggy".into(), password: "iggy".into(), version: None, context: None }));
            frames.push(frame_of(&LogoutUser {}));
            skip = 2;
        }
        2 => {
            frames.push(frame_of(&LoginUser { username: "victim".into(), password: "victim-pw".into(), version: None, context: None }));
            skip = 1;
        }
        _ => {}
    }
    let state_name = ["fresh connection", "connection after logout", "connection of a deleted user"][case.state as usize % 3];
    // state 2: the session logs in first (own connection), then root deletes the user, then the commands follow
    let results = if case.state == 2 {
        let mut s = std::net::TcpStream::connect(w.node.tcp_addr).map_err(|e| Failure::new("C09", "setup", e.to_string()))?;
        let _ = s.set_read_timeout(Some(std::time::Duration::from_secs(5)));
        let send = |s: &mut std::net::TcpStream, code: u32, payload: &[u8]| -> Result<(u32, Vec<u8>), String> {
            let mut f = Vec::new();
            f.extend_from_slice(&((payload.len() + 4) as u32).to_le_bytes());
            f.extend_from_slice(&code.to_le_bytes());
            f.extend_from_slice(payload);
            s.write_all(&f).map_err(|e| format!("write: {e}"))?;
            let mut head = [0u8; 8];
            s.read_exact(&mut head).map_err(|e| format!("closed: {e}"))?;
            let status = u32::from_le_bytes(head[0..4].try_into().unwrap());
            let len = u32::from_le_bytes(head[4..8].try_into().unwrap()) as usize;
            let mut body = vec![0u8; len];
            if len > 0 {
                s.read_exact(&mut body).map_err(|e| format!("short: {e}"))?;
            }
            Ok((status, body))
        };
        let (c, p) = &frames[0];
        let login = send(&mut s, *c, p);
        if !matches!(login, Ok((0, _))) {
            return Err(Failure::new("C09", "setup", format!("victim login failed: {:?}", login.map(|x| x.0))));
        }
        let del = w.node.block_on(async { w.admin.delete_user(&Identifier::numeric(2).unwrap()).await });
        if let Err(e) = del {
            return Err(Failure::new("C09", "setup", format!("delete_user failed: {e}")));
        }
        let mut res = vec![login];
        for (_, (c, p), _) in &cmds {
            res.push(send(&mut s, *c, p));
        }
        res
    } else {
        for (_, f, _) in &cmds {
            frames.push(f.clone());
        }
        raw_request(w.node.tcp_addr, &frames)
    };
    let before = if case.state == 2 { world_snapshot(w).map_err(|e| Failure::new("C09", "setup", e))? } else { before };
    for (i, (name, _, needs_auth)) in cmds.iter().enumerate() {
        out.steps += 1;
        let r = results.get(i + skip);
        // single-entity reads answer every failure (not found, not allowed, not authenticated)
        // with an EMPTY ok response by design ("none"); with no data disclosed that is a refusal
        let single_read = matches!(*name, "get_client" | "get_user" | "get_stream" | "get_topic" | "get_consumer_group" | "get_consumer_offset");
        match r {
            Some(Ok((0, body))) if *needs_auth && single_read && body.is_empty() => {}
            Some(Ok((0, _))) if *needs_auth => {
                return Err(Failure::new("C09", "unauthenticated-request-performed", format!(
                    "binary command {name} was answered with status OK on a {state_name}")).tag(format!("cmd:{name}")).tag(format!("state:{}", case.state)));
            }
            _ => {}
        }
    }
    let ps: Vec<_> = take_panics().into_iter().filter(is_repo_panic).collect();
    if let Some(p) = ps.first() {
        return Err(Failure::new("C09", "server-panic", format!("unauthenticated binary requests made the server panic: {} at {}", p.message, p.location)));
    }
    // HTTP
    if let Some(addr) = w.node.http_addr {
        for (method, path, body, needs_auth) in all_routes() {
            for bearer in [None, Some("bogus.token.value")] {
                out.steps += 1;
                let r = http_request(addr, method, path, body, bearer);
                if let Ok((status, _)) = &r {
                    if needs_auth && *status != 401 {
                        return Err(Failure::new("C09", "unauthenticated-request-performed", format!(
                            "HTTP {method} {path} without a valid token answered {status} (only 401 refuses it)")).tag(format!("route:{method} {path}")));
                    }
                }
            }
        }
    }
    let after = world_snapshot(w).map_err(|e| Failure::new("C09", "snapshot-failed-after-unauthenticated-requests", e))?;
    if before != after {
        return Err(Failure::new("C09", "unauthenticated-request-changed-state", format!("before: {before}\nafter:  {after}")));
    }
    out.nontrivial = true;
    out.label(["state-fresh", "state-after-logout", "state-deleted-user"][case.state as usize % 3]);
    Ok(())
}

// ------------------------------------------------------------------ permhist

pub struct PermHist;

#[derive(Debug, Clone, PartialEq, Serialize, Deserialize)]
pub enum HOp {
    Request { session: u8, what: u8 },
    Update(Option<PermSpec>),
    GrantAll,
    DeleteUser,
    TryDeleteRoot,
    TryStripRoot,
}

#[derive(Debug, Clone, PartialEq, Serialize, Deserialize)]
pub struct HCase {
    pub initial: Option<PermSpec>,
    pub ops: Vec<HOp>,
}

/// the last three act on stream 1 / topic 2 (ids differ); the others on stream 1 / topic 1
const MENU: [Rule; 14] = [Rule::GetStreams, Rule::GetStream, Rule::GetTopics, Rule::GetTopic, Rule::Poll, Rule::Append, Rule::GetUsers, Rule::GetStats, Rule::CreateTopic, Rule::CreateStream, Rule::GetGroup, Rule::DeletePartitions, Rule::CreatePartitions, Rule::PurgeTopic];

impl Engine for PermHist {
    type Case = HCase;
    fn strategy(&self, _p: &Params) -> BoxedStrategy<HCase> {
        let spec = || prop_oneof![1 => Just(None), 4 => perm_spec(2, 2).prop_map(Some)];
        let op = prop_oneof![
            12 => (0u8..2, 0u8..14).prop_map(|(session, what)| HOp::Request { session, what }),
            4 => spec().prop_map(HOp::Update),
            1 => Just(HOp::GrantAll),
            1 => Just(HOp::DeleteUser),
            1 => Just(HOp::TryDeleteRoot),
            1 => Just(HOp::TryStripRoot),
        ];
        (spec(), proptest::collection::vec(op, 1..30)).prop_map(|(initial, ops)| HCase { initial, ops }).boxed()
    }
    fn run(&self, case: &HCase, _p: &Params) -> Outcome {
        let mut out = Outcome::default();
        let _ = take_panics();
        let w = match build_world(false) {
            Ok(w) => w,
            Err(e) => {
                out.inconclusive = Some(format!("permhist setup failed: {e}"));
                return out;
            }
        };
        let r = permhist_run(case, &w, &mut out);
        let _ = w.node.block_on(async { w.admin.shutdown().await });
        let World { dir, node, admin } = w;
        drop(admin);
        node.kill();
        drop(dir);
        let _ = take_panics();
        if let Err(f) = r {
            out.failure = Some(f);
        }
        out
    }
    fn rule(&self, _p: &Params) -> String {
        "case = initial permission record of a user + history of requests (menu of 14 operations: 11 on stream 1 / topic 1, and delete_partitions / create_partitions / purge_topic on stream 1 / topic 2 beside a stream with id 2, so that swapped (stream, topic) arguments consult another record) issued on two already open TCP sessions of that user, interleaved with update_permissions (arbitrary records, none, all), delete_user, and attempts to delete / strip the root user; oracle: a request that succeeds must be granted by the current record under the reference lattice (soundness end to end), with the all-permissions record every request must succeed, without a record or after deletion every request must be refused, root can be neither deleted nor re-permissioned; non-trivial = >=1 request issued after a permission change on an open session".into()
    }
}

fn permhist_run(case: &HCase, w: &World, out: &mut Outcome) -> Check {
    let one = Identifier::numeric(1).unwrap();
    let uid = Identifier::numeric(2).unwrap();
    let fail = |clause: &str, d: String| Failure::new("C09", clause, d);
    let init = case.initial.as_ref().map(permgen::build);
    w.node.block_on(async { w.admin.update_permissions(&uid, init).await }).map_err(|e| fail("setup", e.to_string()))?;
    let mut sessions = vec![];
    for _ in 0..2 {
        sessions.push(w.node.tcp_login("victim", "victim-pw").map_err(|e| fail("setup", format!("victim login: {e}")))?);
    }
    let mut current: Option<PermSpec> = case.initial.clone();
    let mut deleted = false;
    let mut changed = false;
    let mut serial = 0u32;
    for (i, op) in case.ops.iter().enumerate() {
        out.steps += 1;
        match op {
            HOp::Update(spec) => {
                if deleted {
                    continue;
                }
                w.node.block_on(async { w.admin.update_permissions(&uid, spec.as_ref().map(permgen::build)).await }).map_err(|e| fail("update-permissions-failed", e.to_string()))?;
                current = spec.clone();
                changed = true;
            }
            HOp::GrantAll => {
                if deleted {
                    continue;
                }
                w.node.block_on(async { w.admin.update_permissions(&uid, Some(permgen::build(&permgen::root_spec()))).await }).map_err(|e| fail("update-permissions-failed", e.to_string()))?;
                current = Some(permgen::root_spec());
                changed = true;
            }
            HOp::DeleteUser => {
                if deleted {
                    continue;
                }
                w.node.block_on(async { w.admin.delete_user(&uid).await }).map_err(|e| fail("delete-user-failed", e.to_string()))?;
                deleted = true;
                changed = true;
            }
            HOp::TryDeleteRoot => {
                let r = w.node.block_on(async { w.admin.delete_user(&one).await });
                if r.is_ok() {
                    return Err(fail("root-deleted", format!("step {i}: delete_user(root) succeeded")));
                }
            }
            HOp::TryStripRoot => {
                let r = w.node.block_on(async { w.admin.update_permissions(&one, None).await });
                if r.is_ok() {
                    return Err(fail("root-stripped", format!("step {i}: update_permissions(root, none) succeeded")));
                }
                let r = w.node.block_on(async { w.admin.get_stats().await });
                if r.is_err() {
                    return Err(fail("root-stripped", format!("step {i}: root can no longer get_stats after a refused permission update")));
                }
            }
            HOp::Request { session, what } => {
                let rule = MENU[*what as usize % MENU.len()];
                let c = &sessions[*session as usize % 2];
                serial += 1;
                let name = format!("n{serial}");
                let r: Result<(), IggyError> = w.node.block_on(async {
                    match rule {
                        Rule::GetStreams => c.get_streams().await.map(|_| ()),
                        Rule::GetStream => c.get_stream(&one).await.and_then(|o| o.map(|_| ()).ok_or(IggyError::ResourceNotFound("s".into()))),
                        Rule::GetTopics => c.get_topics(&one).await.map(|_| ()),
                        Rule::GetTopic => c.get_topic(&one, &one).await.and_then(|o| o.map(|_| ()).ok_or(IggyError::ResourceNotFound("t".into()))),
                        Rule::Poll => c.poll_messages(&one, &one, Some(1), &Consumer::new(Identifier::numeric(5).unwrap()), &PollingStrategy::offset(0), 1, false).await.map(|_| ()),
                        Rule::Append => {
                            let mut m = vec![Message::new(None, Bytes::from_static(b"x"), None)];
                            c.send_messages(&one, &one, &Partitioning::partition_id(1), &mut m).await
                        }
                        Rule::GetUsers => c.get_users().await.map(|_| ()),
                        Rule::GetStats => c.get_stats().await.map(|_| ()),
                        Rule::CreateTopic => c.create_topic(&one, &name, 1, CompressionAlgorithm::None, None, None, IggyExpiry::NeverExpire, MaxTopicSize::Unlimited).await.map(|_| ()),
                        Rule::CreateStream => c.create_stream(&name, None).await.map(|_| ()),
                        Rule::DeletePartitions => {
                            // root adds one first, so that the partition count stays where it is
                            let two = Identifier::numeric(2).unwrap();
                            let _ = iggy::client::PartitionClient::create_partitions(&w.admin, &one, &two, 1).await;
                            iggy::client::PartitionClient::delete_partitions(c, &one, &two, 1).await
                        }
                        Rule::CreatePartitions => {
                            let two = Identifier::numeric(2).unwrap();
                            let r = iggy::client::PartitionClient::create_partitions(c, &one, &two, 1).await;
                            if r.is_ok() {
                                let _ = iggy::client::PartitionClient::delete_partitions(&w.admin, &one, &two, 1).await;
                            }
                            r
                        }
                        Rule::PurgeTopic => c.purge_topic(&one, &Identifier::numeric(2).unwrap()).await,
                        _ => iggy::client::ConsumerGroupClient::get_consumer_group(c, &one, &one, &one).await.and_then(|o| o.map(|_| ()).ok_or(IggyError::ResourceNotFound("g".into()))),
                    }
                });
                let ps: Vec<_> = take_panics().into_iter().filter(is_repo_panic).collect();
                if let Some(p) = ps.first() {
                    return Err(fail("permission-evaluation-panics", format!(
                        "step {i}: {:?} by the user with record {:?} made the server panic: {} at {}", rule, current, p.message, p.location)).tag(format!("rule:{:?}", rule)));
                }
                if changed {
                    out.nontrivial = true;
                    out.label("request-after-permission-change");
                }
                let ok = r.is_ok();
                if deleted {
                    if ok {
                        return Err(fail("deleted-user-still-served", format!("step {i}: {:?} succeeded on an open session after the user was deleted", rule)));
                    }
                    continue;
                }
                match &current {
                    None => {
                        if ok {
                            return Err(fail("allowed-without-granting-permission", format!("step {i}: {:?} succeeded for a user without any permission record", rule)).tag(format!("rule:{:?}", rule)));
                        }
                    }
                    Some(spec) => {
                        let topic = if matches!(rule, Rule::DeletePartitions | Rule::CreatePartitions | Rule::PurgeTopic) { 2 } else { 1 };
                        let allowed = reference_allows(&canon_spec(spec), rule, 1, topic);
                        if ok && !allowed {
                            return Err(fail("allowed-without-granting-permission", format!(
                                "step {i}: {:?} succeeded on an open session although the user's current record grants nothing for it: {:?}", rule, spec)).tag(format!("rule:{:?}", rule)));
                        }
                        if !ok && *spec == permgen::root_spec() {
                            return Err(fail("all-permissions-denied", format!("step {i}: {:?} failed with every permission granted: {:?}", rule, r.err().map(|e| e.to_string()))).tag(format!("rule:{:?}", rule)));
                        }
                    }
                }
            }
        }
    }
    for c in sessions {
        let _ = w.node.block_on(async { c.shutdown().await });
    }
    Ok(())
}
