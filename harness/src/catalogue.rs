//! `catalogue` engine: histories of valid and invalid administrative commands over TCP
//! and HTTP (SDK clients), interpreted against the real server and a sequential-map model.

use crate::catalogue_gen::*;
use crate::common::*;
use crate::msgs;
use crate::node::{Node, NodeCfg};
use crate::permgen;
use crate::runner::{Engine, Params};
use bytes::Bytes;
use iggy::client::{Client, ConsumerGroupClient, ConsumerOffsetClient, MessageClient, PartitionClient, PersonalAccessTokenClient, StreamClient, SystemClient, TopicClient, UserClient};
use iggy::compression::compression_algorithm::CompressionAlgorithm;
use iggy::consumer::Consumer;
use iggy::error::IggyError;
use iggy::http::client::HttpClient;
use iggy::identifier::Identifier;
use iggy::messages::poll_messages::PollingStrategy;
use iggy::messages::send_messages::{Message, Partitioning};
use iggy::models::user_status::UserStatus;
use iggy::tcp::client::TcpClient;
use iggy::utils::byte_size::IggyByteSize;
use iggy::utils::duration::IggyDuration;
use iggy::utils::expiry::IggyExpiry;
use iggy::utils::topic_size::MaxTopicSize;
use proptest::strategy::BoxedStrategy;
use serde_json::{json, Value};
use std::collections::{BTreeMap, BTreeSet};

pub struct Catalogue;

#[derive(Debug, Clone)]
struct MGroup {
    id: u32,
    name: String,
    members: BTreeSet<u8>,
}

#[derive(Debug, Clone)]
struct MTopic {
    id: u32,
    name: String,
    partitions: u32,
    expiry: u8,
    max_size: u8,
    repl: u8,
    groups: BTreeMap<u32, MGroup>,
    /// payloads per partition (index 0 = partition 1)
    msgs: Vec<Vec<Vec<u8>>>,
    /// consumer offsets stored on partition 1: (is_group, consumer / group id) -> offset
    offsets: BTreeMap<(bool, u32), u64>,
    /// compression setting (true = gzip, false = none)
    gzip: bool,
}

#[derive(Debug, Clone)]
struct MStream {
    id: u32,
    name: String,
    topics: BTreeMap<u32, MTopic>,
}

#[derive(Debug, Clone)]
struct MUser {
    id: u32,
    name: String,
    password: String,
    active: bool,
    perms: Option<permgen::PermSpec>,
}

pub struct Interp<'a> {
    p: &'a Params,
    case: &'a CCase,
    dir: ScratchDir,
    node: Option<Node>,
    tcp: Option<TcpClient>,
    http: Option<HttpClient>,
    extra: BTreeMap<u8, TcpClient>,
    cfg: NodeCfg,
    streams: BTreeMap<u32, MStream>,
    users: BTreeMap<u32, MUser>,
    /// root's personal access tokens: name -> raw token
    pats: BTreeMap<String, String>,
    out: Outcome,
    step: usize,
    serial: u64,
    deleted_then_created: bool,
    mixed_ids: (bool, bool),
    events_deleted: bool,
}

fn conn_lost(e: &IggyError) -> bool {
    matches!(
        e,
        IggyError::Disconnected
            | IggyError::NotConnected
            | IggyError::EmptyResponse
            | IggyError::TcpError
            | IggyError::ConnectionClosed
            | IggyError::CannotEstablishConnection
            | IggyError::ClientShutdown
    )
}

fn digits(s: &str) -> bool {
    !s.is_empty() && s.bytes().all(|b| b.is_ascii_digit())
}

fn ident(via: Via, id: u32, name: &str, by_name: bool) -> Identifier {
    // over HTTP a digit-only path segment *is* a numeric id by design (8.1-6)
    if by_name && !(via == Via::Http && digits(name)) {
        Identifier::named(name).unwrap()
    } else {
        Identifier::numeric(id).unwrap()
    }
}

impl<'a> Interp<'a> {
    fn new(case: &'a CCase, p: &'a Params) -> Self {
        Interp {
            p,
            case,
            dir: ScratchDir::new("cat"),
            node: None,
            tcp: None,
            http: None,
            extra: BTreeMap::new(),
            cfg: case.cfg.clone(),
            streams: BTreeMap::new(),
            users: BTreeMap::new(),
            pats: BTreeMap::new(),
            out: Outcome::default(),
            step: 0,
            serial: 0,
            deleted_then_created: false,
            mixed_ids: (false, false),
            events_deleted: false,
        }
    }
    fn focus(&self) -> &str {
        &self.p.property
    }
    fn attr(&self, owners: &[&str]) -> Option<String> {
        if owners.contains(&self.focus()) {
            Some(self.focus().to_string())
        } else {
            None
        }
    }
    fn fail(&self, prop: &str, clause: &str, detail: String) -> Failure {
        let mut f = Failure::new(prop, clause, format!("step {} ({:?}): {}", self.step, self.case.ops.get(self.step), detail));
        if let Some(op) = self.case.ops.get(self.step) {
            let name = format!("{:?}", op);
            let name = name.split(|c: char| !c.is_alphanumeric()).next().unwrap_or("").to_string();
            f = f.tag(format!("op:{name}"));
            if name_has_http(op) {
                f = f.tag("via:http");
            }
        }
        f
    }
    fn node(&self) -> &Node {
        self.node.as_ref().unwrap()
    }
    fn cl(&self, via: Via) -> &dyn Client {
        match via {
            Via::Http if self.http.is_some() => self.http.as_ref().unwrap(),
            _ => self.tcp.as_ref().unwrap(),
        }
    }
    fn via_eff(&self, via: Via) -> Via {
        if via == Via::Http && self.http.is_some() {
            Via::Http
        } else {
            Via::Tcp
        }
    }

    fn check_panics(&mut self, what: &str) -> Check {
        let ps: Vec<_> = take_panics().into_iter().filter(is_repo_panic).collect();
        if let Some(p) = ps.first() {
            let prop = self.attr(&["C05", "C06", "C13", "C16", "C19"]).unwrap_or(self.focus().to_string());
            return Err(self
                .fail(&prop, "server-panic", format!("{what}: server panicked: {} at {}", p.message, p.location))
                .tag(format!("panic@{}", p.location.rsplit('/').next().unwrap_or(""))));
        }
        Ok(())
    }

    fn connect(&mut self) -> Check {
        let prop = self.focus().to_string();
        if let Some(c) = self.tcp.take() {
            let _ = self.node().block_on(async { c.shutdown().await });
        }
        self.http = None;
        let (ru, rp) = self.users.get(&1).map(|u| (u.name.clone(), u.password.clone())).unwrap_or(("iggy".into(), "iggy".into()));
        match self.node().tcp_login(&ru, &rp) {
            Ok(c) => self.tcp = Some(c),
            Err(e) => return Err(self.fail(&prop, "cannot-connect", format!("root login over TCP failed: {e}"))),
        }
        if self.cfg.http {
            match self.node().http_login(&ru, &rp) {
                Ok(c) => self.http = Some(c),
                Err(e) => return Err(self.fail(&prop, "cannot-connect", format!("root login over HTTP failed: {e}"))),
            }
        }
        Ok(())
    }

    fn start(&mut self) -> Check {
        let prop = self.focus().to_string();
        match Node::start(&self.cfg, &self.dir.path) {
            Ok(n) => {
                self.node = Some(n);
                Ok(())
            }
            Err(e) => {
                let _ = take_panics();
                Err(self.fail(&prop, "start-failed", format!("server start failed: {e:?}")).tag("restart"))
            }
        }
    }

    pub fn teardown(&mut self) {
        if let Some(n) = self.node.as_ref() {
            for (_, c) in std::mem::take(&mut self.extra) {
                let _ = n.block_on(async { c.shutdown().await });
            }
            if let Some(c) = self.tcp.take() {
                let _ = n.block_on(async { c.shutdown().await });
            }
        }
        self.http = None;
        if let Some(n) = self.node.take() {
            n.kill();
        }
        server::verif::disarm_all();
        let _ = take_panics();
    }

    // ---------------------------------------------------------------- resolution

    fn stream_ref(&self, r: &Ref, via: Via) -> (Option<u32>, Identifier) {
        let live: Vec<&MStream> = self.streams.values().collect();
        match r {
            Ref::ById(s) | Ref::ByName(s) if !live.is_empty() => {
                let st = live[pick(*s, live.len())];
                (Some(st.id), ident(via, st.id, &st.name, matches!(r, Ref::ByName(_))))
            }
            Ref::MissingName | Ref::ByName(_) => (None, Identifier::named("no-such-name").unwrap()),
            _ => (None, Identifier::numeric(9_999).unwrap()),
        }
    }
    fn topic_ref(&self, sid: Option<u32>, r: &Ref, via: Via) -> (Option<u32>, Identifier) {
        let live: Vec<&MTopic> = sid.and_then(|s| self.streams.get(&s)).map(|s| s.topics.values().collect()).unwrap_or_default();
        match r {
            Ref::ById(s) | Ref::ByName(s) if !live.is_empty() => {
                let t = live[pick(*s, live.len())];
                (Some(t.id), ident(via, t.id, &t.name, matches!(r, Ref::ByName(_))))
            }
            Ref::MissingName | Ref::ByName(_) => (None, Identifier::named("no-such-name").unwrap()),
            _ => (None, Identifier::numeric(9_999).unwrap()),
        }
    }
    fn group_ref(&self, sid: Option<u32>, tid: Option<u32>, r: &Ref, via: Via) -> (Option<u32>, Identifier) {
        let live: Vec<&MGroup> = sid
            .and_then(|s| self.streams.get(&s))
            .and_then(|s| tid.and_then(|t| s.topics.get(&t)))
            .map(|t| t.groups.values().collect())
            .unwrap_or_default();
        match r {
            Ref::ById(s) | Ref::ByName(s) if !live.is_empty() => {
                let g = live[pick(*s, live.len())];
                (Some(g.id), ident(via, g.id, &g.name, matches!(r, Ref::ByName(_))))
            }
            Ref::MissingName | Ref::ByName(_) => (None, Identifier::named("no-such-name").unwrap()),
            _ => (None, Identifier::numeric(9_999).unwrap()),
        }
    }
    fn user_ref(&self, r: &Ref, via: Via) -> (Option<u32>, Identifier) {
        let live: Vec<&MUser> = self.users.values().collect();
        match r {
            Ref::ById(s) | Ref::ByName(s) if !live.is_empty() => {
                let u = live[pick(*s, live.len())];
                (Some(u.id), ident(via, u.id, &u.name, matches!(r, Ref::ByName(_))))
            }
            Ref::MissingName | Ref::ByName(_) => (None, Identifier::named("no-such-user").unwrap()),
            _ => (None, Identifier::numeric(9_999).unwrap()),
        }
    }
    fn fresh_id(taken: &BTreeSet<u32>, n: u8) -> u32 {
        let mut k = 0;
        let mut id = 0;
        loop {
            id += 1;
            if !taken.contains(&id) {
                if k == n {
                    return id;
                }
                k += 1;
            }
        }
    }
    fn id_choice(taken: &BTreeSet<u32>, c: &IdChoice) -> (Option<u32>, bool) {
        // (id to send, collides)
        match c {
            IdChoice::Server => (None, false),
            IdChoice::Fresh(n) => (Some(Self::fresh_id(taken, *n)), false),
            IdChoice::Taken(s) => {
                if taken.is_empty() {
                    (Some(1), false)
                } else {
                    let v: Vec<u32> = taken.iter().copied().collect();
                    (Some(v[pick(*s, v.len())]), true)
                }
            }
        }
    }

    fn expiry_of(e: u8) -> IggyExpiry {
        match e % 4 {
            0 => IggyExpiry::ServerDefault,
            1 => IggyExpiry::NeverExpire,
            2 => IggyExpiry::ExpireDuration(IggyDuration::from(3_600_000_000u64)),
            _ => IggyExpiry::ExpireDuration(IggyDuration::from(10_000_000u64)),
        }
    }
    fn expiry_resolved(e: u8) -> String {
        match e % 4 {
            0 | 1 => "never".into(),
            2 => "3600000000".into(),
            _ => "10000000".into(),
        }
    }
    fn size_of(&self, m: u8) -> (MaxTopicSize, bool) {
        match m % 4 {
            0 => (MaxTopicSize::ServerDefault, true),
            1 => (MaxTopicSize::Unlimited, true),
            2 => (MaxTopicSize::Custom(IggyByteSize::from(self.cfg.segment_size * 2)), true),
            _ => (MaxTopicSize::Custom(IggyByteSize::from(100u64)), false),
        }
    }
    fn size_resolved(&self, m: u8) -> String {
        match m % 4 {
            0 | 1 => "unlimited".into(),
            2 => format!("{}", self.cfg.segment_size * 2),
            _ => "100".into(),
        }
    }
}

fn name_has_http(op: &COp) -> bool {
    format!("{:?}", op).contains("via: Http")
}

include!("catalogue_ops.rs");
include!("catalogue_snap.rs");

impl Engine for Catalogue {
    type Case = CCase;
    fn strategy(&self, p: &Params) -> BoxedStrategy<CCase> {
        case_strategy(p)
    }
    fn run(&self, case: &CCase, p: &Params) -> Outcome {
        let mut it = Interp::new(case, p);
        let r = it.run_case();
        let mut out = std::mem::take(&mut it.out);
        it.teardown();
        if let Err(f) = r {
            out.failure = Some(f);
        }
        out
    }
    fn rule(&self, p: &Params) -> String {
        let nt = match p.property.as_str() {
            "C05" => "non-trivial = a restart preceded by a deletion followed by a creation in the same scope, or by a mix of explicit and server-assigned ids",
            "C06" => "non-trivial = a rename followed by reuse of the old name, or deletion of an entity holding >=2 client memberships, or an id reused after deletion, or >=1 refused command followed by accepted ones",
            "C13" => "non-trivial = the same catalogue state was fetched and decoded over both transports (TCP and HTTP) with >=1 topic and >=1 user beyond root",
            _ => "non-trivial = >=3 acknowledged mutations",
        };
        format!("case = generated list of administrative commands (create/update/delete/purge stream/topic, partitions, consumer groups, join/leave/disconnect, users, permissions, passwords, tokens, sends, restarts; valid and invalid; ids server-assigned or explicit; entities addressed by id or name; transport TCP or HTTP per command) interpreted against the real server through the SDK clients and a sequential-map model; after every command the full catalogue snapshot is compared with the model; {nt}")
    }
    fn assumptions(&self, _p: &Params) -> Vec<String> {
        vec![
            "server embedded in-process with TCP and HTTP listeners; restart = system.shutdown() + runtime drop".into(),
            "real clock (HTTP JWT validation uses the wall clock); created_at fields are not compared".into(),
            "server-assigned ids are adopted from the response and then held (uniqueness, stability, restart)".into(),
            "over HTTP digit-only names are addressed by id (a digit path segment is a numeric id by design)".into(),
            "list order of responses is not compared (sorted by id)".into(),
        ]
    }
}
