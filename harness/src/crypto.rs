//! `crypto` check (C19, component level): the SDK's AES-256-GCM encryptor, which encrypts message
//! payloads at the client or server and every journalled command. Round trip for every plaintext
//! length, no acceptance under another key, every tampered / truncated ciphertext is an error
//! (never content, never a panic), the plaintext never appears in the ciphertext.

use crate::common::*;
use crate::runner::{Engine, Params};
use iggy::utils::crypto::{Aes256GcmEncryptor, Encryptor};
use proptest::prelude::*;
use proptest::strategy::BoxedStrategy;
use serde::{Deserialize, Serialize};

pub struct Crypto;

#[derive(Debug, Clone, PartialEq, Serialize, Deserialize)]
pub struct XCase {
    pub key_a: u8,
    pub key_b: u8,
    /// plaintext: (length, filler seed)
    pub len: u32,
    pub seed: u64,
    /// tamper: (position selector, xor mask != 0)
    pub flips: Vec<(u16, u8)>,
    /// truncations: lengths as fractions of the ciphertext
    pub cuts: Vec<u16>,
}

fn key(k: u8) -> Vec<u8> {
    (0..32u8).map(|i| i.wrapping_mul(7).wrapping_add(k.wrapping_mul(31)).wrapping_add(1)).collect()
}

impl Engine for Crypto {
    type Case = XCase;
    fn strategy(&self, _p: &Params) -> BoxedStrategy<XCase> {
        // lengths around every boundary of the format (nonce 12, tag 16, AES block 16) and up to 64 kB
        let len = prop_oneof![
            4 => prop_oneof![Just(0u32), Just(1), Just(11), Just(12), Just(13), Just(15), Just(16), Just(17), Just(27), Just(28), Just(29), Just(31), Just(32), Just(33)],
            6 => 0u32..300,
            2 => 300u32..66_000,
        ];
        (any::<u8>(), any::<u8>(), len, any::<u64>(), proptest::collection::vec((any::<u16>(), 1u8..=255), 0..6), proptest::collection::vec(any::<u16>(), 0..6))
            .prop_map(|(key_a, key_b, len, seed, flips, cuts)| XCase { key_a, key_b, len, seed, flips, cuts })
            .boxed()
    }
    fn run(&self, case: &XCase, _p: &Params) -> Outcome {
        let mut out = Outcome::default();
        let _ = take_panics();
        let fail = |c: &str, d: String| Failure::new("C19", c, d).tag(format!("len:{}", case.len));
        let plain = crate::msgs::fill(case.seed | 1, case.len as usize);
        let r = std::panic::catch_unwind(std::panic::AssertUnwindSafe(|| -> Result<(), Failure> {
            let a = Aes256GcmEncryptor::new(&key(case.key_a)).map_err(|e| fail("encryptor-setup", e.to_string()))?;
            let ct = a.encrypt(&plain).map_err(|e| fail("encrypt-failed", format!("encrypt of {} bytes failed: {e}", plain.len())))?;
            // lossless
            match a.decrypt(&ct) {
                Ok(p) if p == plain => {}
                Ok(p) => return Err(fail("decrypt-differs", format!("decrypt(encrypt(x)) returned {} bytes that differ from the {} bytes given", p.len(), plain.len()))),
                Err(e) => return Err(fail("own-ciphertext-undecryptable", format!("the ciphertext ({} bytes) of a {}-byte plaintext is rejected under its own key: {e}", ct.len(), plain.len()))),
            }
            out.steps += 1;
            // not in clear
            if plain.len() >= 8 && find_bytes(&ct, &plain).is_some() {
                return Err(fail("plaintext-in-ciphertext", format!("the {}-byte plaintext appears inside its ciphertext", plain.len())));
            }
            // two encryptions of the same plaintext differ (fresh nonce)
            let ct2 = a.encrypt(&plain).map_err(|e| fail("encrypt-failed", e.to_string()))?;
            if ct2 == ct {
                return Err(fail("nonce-reused", "two encryptions of the same plaintext are identical".into()));
            }
            // another key
            if key(case.key_b) != key(case.key_a) {
                let b = Aes256GcmEncryptor::new(&key(case.key_b)).map_err(|e| fail("encryptor-setup", e.to_string()))?;
                if let Ok(p) = b.decrypt(&ct) {
                    return Err(fail("other-key-accepts", format!("a ciphertext written under one key decrypts to {} bytes under another key", p.len())));
                }
                out.steps += 1;
                out.label("other-key-tried");
            }
            // tampering: any changed byte is an error
            for (pos, mask) in &case.flips {
                let mut t = ct.clone();
                let i = pick(*pos, t.len());
                t[i] ^= mask;
                if let Ok(p) = a.decrypt(&t) {
                    return Err(fail("tampered-ciphertext-accepted", format!("byte {i} of {} xor {mask:#x}: decrypts to {} bytes", t.len(), p.len())));
                }
                out.steps += 1;
                out.nontrivial = true;
            }
            // truncation (incl. below the nonce and tag lengths): an error, never a panic
            for c in &case.cuts {
                let k = ((*c as usize) * ct.len()) >> 16;
                if let Ok(p) = a.decrypt(&ct[..k]) {
                    return Err(fail("truncated-ciphertext-accepted", format!("the first {k} of {} ciphertext bytes decrypt to {} bytes", ct.len(), p.len())));
                }
                out.steps += 1;
                out.nontrivial = true;
                if k < 28 {
                    out.label("cut-below-nonce-plus-tag");
                }
            }
            Ok(())
        }));
        match r {
            Ok(Ok(())) => {}
            Ok(Err(f)) => out.failure = Some(f),
            Err(_) => {
                let ps = take_panics();
                out.failure = Some(fail("encryptor-panics", format!("{:?}", ps.last().map(|p| format!("{} at {}", p.message, p.location)))));
            }
        }
        match case.len {
            0 => out.label("empty-plaintext"),
            1..=16 => out.label("plaintext-within-one-block"),
            _ => {}
        }
        let _ = take_panics();
        out
    }
    fn rule(&self, _p: &Params) -> String {
        "case = two keys, a plaintext of generated length (0, 1, 11..13, 15..17, 27..29, 31..33 favoured; up to 66 kB), up to 5 single-byte changes and up to 5 truncation points of its ciphertext; oracle on the SDK's Aes256GcmEncryptor (used for payloads and journalled commands): decrypt(encrypt(x)) == x, two encryptions differ, x (>= 8 bytes) does not occur in the ciphertext, the other key rejects it, every changed or truncated ciphertext is rejected and nothing panics; non-trivial = >= 1 tampered or truncated ciphertext tried".into()
    }
}
