mod catalogue;
mod catalogue_gen;
mod common;
mod crypto;
mod conc;
mod consumers;
mod crash;
mod creds;
mod frames;
mod journal;
mod msgs;
mod node;
mod partlog;
mod partlog_gen;
mod permgen;
mod perms;
mod plan;
mod runner;
mod sdkclients;
mod wire;

use runner::*;
use serde_json::{json, Value};
use std::path::PathBuf;

fn arg_after(args: &[String], flag: &str) -> Option<String> {
    args.iter().position(|a| a == flag).and_then(|i| args.get(i + 1)).cloned()
}

/// engine dispatch: check name -> worker run
fn dispatch_worker(wa: WorkerArgs) -> i32 {
    match wa.params.check.as_str() {
        "partlog" => worker_main(&partlog::Partlog, wa),
        "crypto" => worker_main(&crypto::Crypto, wa),
        "catalogue" => worker_main(&catalogue::Catalogue, wa),
        "wire" => worker_main(&wire::Wire, wa),
        "creds" => worker_main(&creds::Creds, wa),
        "frames" => worker_main(&frames::Frames, wa),
        "sdkclients" => worker_main(&sdkclients::SdkClients, wa),
        "conc" => worker_main(&conc::Conc, wa),
        "crash" => worker_main(&crash::Crash, wa),
        "journal-tamper" => worker_main(&journal::Tamper, wa),
        "journal-sched" => worker_main(&journal::Sched, wa),
        "permrules" => worker_main(&perms::PermRules, wa),
        "authgate" => worker_main(&perms::AuthGate, wa),
        "permhist" => worker_main(&perms::PermHist, wa),
        "offsets" => worker_main(&consumers::Offsets, wa),
        "groupcomp" => worker_main(&consumers::GroupComp, wa),
        "groups" => worker_main(&consumers::Groups, wa),
        other => {
            eprintln!("unknown check {other}");
            4
        }
    }
}

fn dispatch_replay(check: &str, case: &Value, p: &Params) -> common::Outcome {
    match check {
        "partlog" => replay_case(&partlog::Partlog, case, p),
        "crypto" => replay_case(&crypto::Crypto, case, p),
        "catalogue" => replay_case(&catalogue::Catalogue, case, p),
        "wire" => replay_case(&wire::Wire, case, p),
        "creds" => replay_case(&creds::Creds, case, p),
        "frames" => replay_case(&frames::Frames, case, p),
        "sdkclients" => replay_case(&sdkclients::SdkClients, case, p),
        "conc" => replay_case(&conc::Conc, case, p),
        "crash" => replay_case(&crash::Crash, case, p),
        "journal-tamper" => replay_case(&journal::Tamper, case, p),
        "journal-sched" => replay_case(&journal::Sched, case, p),
        "permrules" => replay_case(&perms::PermRules, case, p),
        "authgate" => replay_case(&perms::AuthGate, case, p),
        "permhist" => replay_case(&perms::PermHist, case, p),
        "offsets" => replay_case(&consumers::Offsets, case, p),
        "groupcomp" => replay_case(&consumers::GroupComp, case, p),
        "groups" => replay_case(&consumers::Groups, case, p),
        other => {
            let mut o = common::Outcome::default();
            o.inconclusive = Some(format!("unknown check {other}"));
            o
        }
    }
}

fn main() {
    let args: Vec<String> = std::env::args().collect();
    if args.len() < 2 {
        eprintln!("usage: vcheck <PROPERTY> --tier quick|thorough [--seed N] | vcheck <PROPERTY> --replay <file>");
        std::process::exit(2);
    }
    let seed_env = std::env::var("VERIF_SEED").ok().and_then(|s| s.parse::<u64>().ok());
    let seed = arg_after(&args, "--seed").and_then(|s| s.parse().ok()).or(seed_env).unwrap_or(0);
    let seed = if seed == 0 { 0x1661_2026 } else { seed };

    if args[1] == "--dump-journals" {
        journal::dump_journals(&PathBuf::from(&args[2]), args.get(3).and_then(|s| s.parse().ok()).unwrap_or(30));
        return;
    }
    if args[1] == "--worker" {
        let pfile = PathBuf::from(&args[2]);
        let params: Params = serde_json::from_str(&std::fs::read_to_string(&pfile).expect("params")).expect("params json");
        let wa = WorkerArgs {
            params,
            out: PathBuf::from(arg_after(&args, "--out").expect("--out")),
            case_timeout_s: arg_after(&args, "--case-timeout").and_then(|s| s.parse().ok()).unwrap_or(120),
            max_shrink_iters: arg_after(&args, "--shrink").and_then(|s| s.parse().ok()).unwrap_or(300),
        };
        std::process::exit(dispatch_worker(wa));
    }
    if args[1] == "--replay-worker" {
        let file = PathBuf::from(&args[2]);
        let out = PathBuf::from(arg_after(&args, "--out").expect("--out"));
        let rf: ReplayFile = serde_json::from_str(&std::fs::read_to_string(&file).expect("replay file")).expect("replay json");
        let params = Params {
            property: rf.property.clone(),
            check: rf.check.clone(),
            tier: Tier::Quick,
            seed,
            widx: 0,
            nworkers: 1,
            cases: 1,
            open_findings: vec![],
            flavour: rf.flavour.clone(),
            strict: true,
        };
        // watchdog: a replay that does not finish is a failing case ("hang"), reported with the step budget
        {
            let out = out.clone();
            let prop = rf.property.clone();
            let limit: u64 = std::fs::read_to_string(&file).ok().and_then(|t| serde_json::from_str::<Value>(&t).ok()).and_then(|v| v["timeout_s"].as_u64()).unwrap_or(90);
            std::thread::spawn(move || {
                std::thread::sleep(std::time::Duration::from_secs(limit));
                let f = common::Failure::new(&prop, "hang", format!("the replayed case did not finish within {limit} s (server call never returned)"));
                let v = json!({"failure": f, "inconclusive": null, "labels": [], "steps": 0, "runs": 1});
                let _ = std::fs::write(&out, serde_json::to_string(&v).unwrap());
                std::process::exit(1);
            });
        }
        // a replay is run up to 3 times; it counts as failing when any run fails
        let mut o = dispatch_replay(&rf.check, &rf.case, &params);
        let mut runs = 1;
        let expect_known = std::fs::read_to_string(&file).map(|t| t.contains("\"expect\": \"known:")).unwrap_or(false);
        let max_runs = if expect_known { 10 } else { replay_repeats(&rf.check) };
        while o.failure.is_none() && o.inconclusive.is_none() && runs < max_runs {
            o = dispatch_replay(&rf.check, &rf.case, &params);
            runs += 1;
        }
        let v = json!({"failure": o.failure, "inconclusive": o.inconclusive, "labels": o.labels, "steps": o.steps, "runs": runs});
        std::fs::write(&out, serde_json::to_string(&v).unwrap()).expect("write out");
        std::process::exit(if o.failure.is_some() { 1 } else { 0 });
    }

    let prop = args[1].clone();
    if let Some(file) = arg_after(&args, "--replay") {
        std::process::exit(replay_cmd(&prop, &PathBuf::from(file), seed));
    }
    let tier = match arg_after(&args, "--tier").or_else(|| std::env::var("VERIF_TIER").ok()).as_deref() {
        Some("thorough") => Tier::Thorough,
        _ => Tier::Quick,
    };
    let Some((level, jobs)) = plan::plan(&prop, tier) else {
        eprintln!("no check registered for property {prop}");
        std::process::exit(2);
    };
    let code = coordinator(CoordArgs {
        property: prop,
        tier,
        seed,
        level,
        jobs,
    });
    std::process::exit(code);
}

fn replay_repeats(check: &str) -> u32 {
    match check {
        "conc" | "journal-sched" | "sdkclients" => 5,
        "partlog" => 3,
        _ => 1,
    }
}

fn replay_cmd(prop: &str, file: &PathBuf, seed: u64) -> i32 {
    let text = match std::fs::read_to_string(file) {
        Ok(t) => t,
        Err(e) => {
            eprintln!("cannot read {}: {e}", file.display());
            return 2;
        }
    };
    let v: Value = serde_json::from_str(&text).unwrap_or(Value::Null);
    let cache = v["cache"].as_str().unwrap_or("off").to_string();
    let out = std::env::temp_dir().join(format!("vcheck-replay-{}.json", std::process::id()));
    let out = PathBuf::from(std::env::var("VERIF_SCRATCH").unwrap_or_else(|_| "/dev/shm".into())).join(out.file_name().unwrap());
    let st = std::process::Command::new(std::env::current_exe().unwrap())
        .arg("--replay-worker")
        .arg(file)
        .arg("--out")
        .arg(&out)
        .arg("--seed")
        .arg(seed.to_string())
        .env("VERIF_CACHE", cache)
        .status();
    let r: Value = std::fs::read_to_string(&out).ok().and_then(|s| serde_json::from_str(&s).ok()).unwrap_or(Value::Null);
    let _ = std::fs::remove_file(&out);
    if st.is_err() || r.is_null() {
        println!("INCONCLUSIVE: replay worker died");
        return 2;
    }
    if let Some(why) = r["inconclusive"].as_str() {
        println!("INCONCLUSIVE: {why}");
        return 2;
    }
    match serde_json::from_value::<common::Failure>(r["failure"].clone()) {
        Ok(f) => {
            let findings = load_findings();
            if let Some(k) = match_open(&findings, &f) {
                println!("KNOWN-FINDING: property={} {} [{}]", f.property, k.what_fails, k.id);
                println!("  {}", f.detail);
                return 0;
            }
            println!("VIOLATION property={} replay={}", if f.property.is_empty() { prop } else { &f.property }, file.display());
            println!("  clause={} tags={:?}", f.clause, f.tags);
            println!("  {}", f.detail);
            1
        }
        Err(_) => {
            println!("replay passes: {}", file.display());
            0
        }
    }
}
