// included into catalogue.rs: snapshots (server side / model side) and their comparison

impl<'a> Interp<'a> {
    fn expiry_str(e: &IggyExpiry) -> String {
        match e {
            IggyExpiry::NeverExpire => "never".into(),
            IggyExpiry::ServerDefault => "server_default".into(),
            IggyExpiry::ExpireDuration(d) => format!("{}", d.as_micros()),
        }
    }
    fn size_str(m: &MaxTopicSize) -> String {
        match m {
            MaxTopicSize::Unlimited => "unlimited".into(),
            MaxTopicSize::ServerDefault => "server_default".into(),
            MaxTopicSize::Custom(b) => format!("{}", b.as_bytes_u64()),
        }
    }

    /// The catalogue as a user sees it through get/list calls of one transport.
    fn server_snapshot(&mut self, via: Via) -> Result<Value, Failure> {
        let via = self.via_eff(via);
        let prop = self.focus().to_string();
        let n = self.node.as_ref().unwrap();
        let c = self.cl(via);
        let r: Result<Value, (String, IggyError)> = n.block_on(async {
            let mut streams = c.get_streams().await.map_err(|e| ("get_streams".to_string(), e))?;
            streams.sort_by_key(|s| s.id);
            let mut sv = vec![];
            for s in &streams {
                let sid = Identifier::numeric(s.id).unwrap();
                let sd = c
                    .get_stream(&sid)
                    .await
                    .map_err(|e| (format!("get_stream({})", s.id), e))?
                    .ok_or_else(|| (format!("get_stream({}) -> none although listed", s.id), IggyError::ResourceNotFound(String::new())))?;
                // lookup by name must find the same stream
                let mut by_name_id = Value::Null;
                if !(via == Via::Http && digits(&s.name)) {
                    let bn = c.get_stream(&Identifier::named(&s.name).unwrap()).await.map_err(|e| (format!("get_stream(name {})", s.name), e))?;
                    by_name_id = json!(bn.map(|b| b.id));
                }
                let mut topics: Vec<&iggy::models::topic::Topic> = sd.topics.iter().collect();
                topics.sort_by_key(|t| t.id);
                let mut tv = vec![];
                for t in &topics {
                    let tid = Identifier::numeric(t.id).unwrap();
                    let td = c
                        .get_topic(&sid, &tid)
                        .await
                        .map_err(|e| (format!("get_topic({},{})", s.id, t.id), e))?
                        .ok_or_else(|| (format!("get_topic({},{}) -> none although listed", s.id, t.id), IggyError::ResourceNotFound(String::new())))?;
                    let mut t_by_name = Value::Null;
                    if !(via == Via::Http && digits(&t.name)) {
                        let bn = c.get_topic(&sid, &Identifier::named(&t.name).unwrap()).await.map_err(|e| (format!("get_topic(name {})", t.name), e))?;
                        t_by_name = json!(bn.map(|b| b.id));
                    }
                    let mut groups = c.get_consumer_groups(&sid, &tid).await.map_err(|e| (format!("get_consumer_groups({},{})", s.id, t.id), e))?;
                    groups.sort_by_key(|g| g.id);
                    let mut gv = vec![];
                    for g in &groups {
                        let gd = c
                            .get_consumer_group(&sid, &tid, &Identifier::numeric(g.id).unwrap())
                            .await
                            .map_err(|e| (format!("get_consumer_group({},{},{})", s.id, t.id, g.id), e))?
                            .ok_or_else(|| ("get_consumer_group -> none although listed".to_string(), IggyError::ResourceNotFound(String::new())))?;
                        let mut g_by_name = Value::Null;
                        if !(via == Via::Http && digits(&g.name)) {
                            let bn = c
                                .get_consumer_group(&sid, &tid, &Identifier::named(&g.name).unwrap())
                                .await
                                .map_err(|e| (format!("get_consumer_group(name {})", g.name), e))?;
                            g_by_name = json!(bn.map(|b| b.id));
                        }
                        gv.push(json!({"id":g.id,"name":g.name,"partitions_count":gd.partitions_count,"members_count":gd.members_count,
                            "listed_members_count":g.members_count,"members_len":gd.members.len(),"by_name":g_by_name}));
                    }
                    let mut pids: Vec<u32> = td.partitions.iter().map(|p| p.id).collect();
                    pids.sort();
                    // stored consumer offsets of partition 1: consumers 1..2 and every live group
                    let mut offs: Vec<(bool, u32, u64)> = vec![];
                    if let (Some(admin), true) = (self.tcp.as_ref(), pids.contains(&1)) {
                        let mut whos: Vec<(bool, u32)> = vec![(false, 1), (false, 2)];
                        whos.extend(groups.iter().map(|g| (true, g.id)));
                        for (is_group, id) in whos {
                            let cons = if is_group { Consumer::group(Identifier::numeric(id).unwrap()) } else { Consumer::new(Identifier::numeric(id).unwrap()) };
                            let o = admin.get_consumer_offset(&cons, &sid, &tid, Some(1)).await.map_err(|e| (format!("get_consumer_offset({},{},{}{id})", s.id, t.id, if is_group { "group " } else { "" }), e))?;
                            if let Some(o) = o {
                                offs.push((is_group, id, o.stored_offset));
                            }
                        }
                    }
                    tv.push(json!({
                        "id":t.id,"name":t.name,"partitions_count":td.partitions_count,"partition_ids":pids,
                        "listed_partitions_count":t.partitions_count,
                        "expiry":Self::expiry_str(&td.message_expiry),"max_size":Self::size_str(&td.max_topic_size),
                        "repl":td.replication_factor,"compression":td.compression_algorithm.to_string(),
                        "messages_count":td.messages_count,"by_name":t_by_name,"groups":gv,"offsets":offs,
                    }));
                }
                sv.push(json!({"id":s.id,"name":s.name,"topics_count":sd.topics_count,"listed_topics_count":s.topics_count,
                    "messages_count":sd.messages_count,"by_name":by_name_id,"topics":tv}));
            }
            let mut users = c.get_users().await.map_err(|e| ("get_users".to_string(), e))?;
            users.sort_by_key(|u| u.id);
            let mut uv = vec![];
            for u in &users {
                let ud = c
                    .get_user(&Identifier::numeric(u.id).unwrap())
                    .await
                    .map_err(|e| (format!("get_user({})", u.id), e))?
                    .ok_or_else(|| (format!("get_user({}) -> none although listed", u.id), IggyError::ResourceNotFound(String::new())))?;
                let mut u_by_name = Value::Null;
                if !(via == Via::Http && digits(&u.username)) {
                    let bn = c.get_user(&Identifier::named(&u.username).unwrap()).await.map_err(|e| (format!("get_user(name {})", u.username), e))?;
                    u_by_name = json!(bn.map(|b| b.id));
                }
                uv.push(json!({"id":u.id,"username":u.username,"active":matches!(ud.status, UserStatus::Active),
                    "listed_active":matches!(u.status, UserStatus::Active),"perms":permgen::canon(&ud.permissions),"by_name":u_by_name}));
            }
            let mut pats: Vec<String> = c.get_personal_access_tokens().await.map_err(|e| ("get_personal_access_tokens".to_string(), e))?.into_iter().map(|p| p.name).collect();
            pats.sort();
            let stats = c.get_stats().await.map_err(|e| ("get_stats".to_string(), e))?;
            // the client-side view of group memberships (what get_client reports for each member connection)
            let mut clv = vec![];
            if let Some(admin) = self.tcp.as_ref() {
                for (idx, ec) in &self.extra {
                    let me = ec.get_me().await.map_err(|e| (format!("get_me(member connection {idx})"), e))?;
                    let info = admin
                        .get_client(me.client_id)
                        .await
                        .map_err(|e| (format!("get_client({})", me.client_id), e))?
                        .ok_or_else(|| (format!("get_client({}) -> none for an open connection", me.client_id), IggyError::ResourceNotFound(String::new())))?;
                    let mut ms: Vec<(u32, u32, u32)> = info.consumer_groups.iter().map(|g| (g.stream_id, g.topic_id, g.group_id)).collect();
                    ms.sort();
                    clv.push(json!({"id":idx,"memberships":ms,"memberships_count":info.consumer_groups_count,"own_view_count":me.consumer_groups_count}));
                }
            }
            Ok(json!({"streams":sv,"users":uv,"pats":pats,"clients":clv,
                "stats":{"streams":stats.streams_count,"topics":stats.topics_count,"partitions":stats.partitions_count,
                         "groups":stats.consumer_groups_count,"messages":stats.messages_count}}))
        });
        match r {
            Ok(v) => Ok(v),
            Err((what, e)) => {
                self.check_panics(&what)?;
                let pr = self.attr(&["C06", "C13", "C05"]).unwrap_or(prop);
                Err(self.fail(&pr, "snapshot-call-failed", format!("{what} over {:?} failed on a catalogue that should be readable: {e} ({})", via, e.as_code())))
            }
        }
    }

    fn model_snapshot(&self, via: Via) -> Value {
        let via = self.via_eff(via);
        let mut sv = vec![];
        let (mut nt, mut np, mut ng, mut nm) = (0u32, 0u32, 0u32, 0u64);
        for s in self.streams.values() {
            let mut tv = vec![];
            let mut smsgs = 0u64;
            for t in s.topics.values() {
                let mut gv = vec![];
                for g in t.groups.values() {
                    let bn = if via == Via::Http && digits(&g.name) { Value::Null } else { json!(Some(g.id)) };
                    gv.push(json!({"id":g.id,"name":g.name,"partitions_count":t.partitions,"members_count":g.members.len(),
                        "listed_members_count":g.members.len(),"members_len":g.members.len(),"by_name":bn}));
                    ng += 1;
                }
                let count: u64 = t.msgs.iter().map(|p| p.len() as u64).sum();
                smsgs += count;
                let bn = if via == Via::Http && digits(&t.name) { Value::Null } else { json!(Some(t.id)) };
                tv.push(json!({
                    "id":t.id,"name":t.name,"partitions_count":t.partitions,"partition_ids":(1..=t.partitions).collect::<Vec<u32>>(),
                    "listed_partitions_count":t.partitions,
                    "expiry":Self::expiry_resolved(t.expiry),"max_size":self.size_resolved(t.max_size),
                    "repl":t.repl,"compression":(if t.gzip { CompressionAlgorithm::Gzip } else { CompressionAlgorithm::None }).to_string(),
                    "messages_count":count,"by_name":bn,"groups":gv,
                    "offsets":if self.tcp.is_some() { t.offsets.iter().map(|((g, id), o)| (*g, *id, *o)).collect::<Vec<(bool, u32, u64)>>() } else { vec![] },
                }));
                nt += 1;
                np += t.partitions;
            }
            nm += smsgs;
            let bn = if via == Via::Http && digits(&s.name) { Value::Null } else { json!(Some(s.id)) };
            sv.push(json!({"id":s.id,"name":s.name,"topics_count":s.topics.len(),"listed_topics_count":s.topics.len(),
                "messages_count":smsgs,"by_name":bn,"topics":tv}));
        }
        let mut uv = vec![];
        for u in self.users.values() {
            let bn = if via == Via::Http && digits(&u.name) { Value::Null } else { json!(Some(u.id)) };
            let perms = if u.id == 1 { permgen::canon(&Some(permgen::build(&permgen::root_spec()))) } else { permgen::canon(&u.perms.as_ref().map(|p| permgen::build(&permgen::normalized(p)))) };
            uv.push(json!({"id":u.id,"username":u.name,"active":u.active,"listed_active":u.active,"perms":perms,"by_name":bn}));
        }
        let pats: Vec<String> = self.pats.keys().cloned().collect();
        let mut clv = vec![];
        if self.tcp.is_some() {
            for idx in self.extra.keys() {
                let mut ms: Vec<(u32, u32, u32)> = vec![];
                for s in self.streams.values() {
                    for t in s.topics.values() {
                        for g in t.groups.values() {
                            if g.members.contains(idx) {
                                ms.push((s.id, t.id, g.id));
                            }
                        }
                    }
                }
                ms.sort();
                clv.push(json!({"id":idx,"memberships":ms,"memberships_count":ms.len(),"own_view_count":ms.len()}));
            }
        }
        json!({"streams":sv,"users":uv,"pats":pats,"clients":clv,
            "stats":{"streams":self.streams.len(),"topics":nt,"partitions":np,"groups":ng,"messages":nm}})
    }

    /// first difference between two JSON values, as a path
    fn diff(a: &Value, b: &Value, path: String) -> Option<String> {
        match (a, b) {
            (Value::Object(x), Value::Object(y)) => {
                for (k, v) in x {
                    match y.get(k) {
                        None => return Some(format!("{path}.{k}: present vs absent")),
                        Some(w) => {
                            if let Some(d) = Self::diff(v, w, format!("{path}.{k}")) {
                                return Some(d);
                            }
                        }
                    }
                }
                for k in y.keys() {
                    if !x.contains_key(k) {
                        return Some(format!("{path}.{k}: absent vs present"));
                    }
                }
                None
            }
            (Value::Array(x), Value::Array(y)) => {
                if x.len() != y.len() {
                    let ids = |v: &Vec<Value>| v.iter().map(|e| e.get("id").cloned().unwrap_or(e.clone())).collect::<Vec<_>>();
                    return Some(format!("{path}: {} entries {:?} vs {} entries {:?}", x.len(), ids(x), y.len(), ids(y)));
                }
                for (i, (v, w)) in x.iter().zip(y.iter()).enumerate() {
                    if let Some(d) = Self::diff(v, w, format!("{path}[{i}]")) {
                        return Some(d);
                    }
                }
                None
            }
            _ => {
                if a == b {
                    None
                } else {
                    Some(format!("{path}: {a} vs {b}"))
                }
            }
        }
    }

    /// C06 / C13: what get/list calls show equals the model (server vs model)
    fn compare_with_model(&mut self, via: Via, why: &str) -> Check {
        let Some(pr) = self.attr(&["C06", "C13", "C16", "C19"]) else { return Ok(()) };
        let got = self.server_snapshot(via)?;
        let want = self.model_snapshot(via);
        if let Some(d) = Self::diff(&got, &want, String::new()) {
            let clause = if d.contains(".stats") { "stats-mismatch" } else if d.contains("by_name") { "lookup-by-name-disagrees" } else { "snapshot-mismatch" };
            let pr = if clause == "stats-mismatch" { self.attr(&["C16", "C06"]).unwrap_or(pr) } else { pr };
            return Err(self.fail(&pr, clause, format!("{why} (over {:?}): server vs model differ at {d}", self.via_eff(via))));
        }
        Ok(())
    }

    /// directories of live entities exist, directories of deleted ones are gone
    fn dir_check(&mut self, why: &str) -> Check {
        let Some(pr) = self.attr(&["C06", "C05"]) else { return Ok(()) };
        let root = self.dir.path.join("streams");
        let list = |p: &std::path::Path| -> BTreeSet<String> {
            std::fs::read_dir(p).map(|rd| rd.flatten().map(|e| e.file_name().to_string_lossy().to_string()).collect()).unwrap_or_default()
        };
        let have = list(&root);
        let want: BTreeSet<String> = self.streams.keys().map(|k| k.to_string()).collect();
        if have != want {
            return Err(self.fail(&pr, "stream-directories", format!("{why}: stream directories {:?} but live streams {:?}", have, want)));
        }
        for s in self.streams.values() {
            let tdir = root.join(s.id.to_string()).join("topics");
            let have = list(&tdir);
            let want: BTreeSet<String> = s.topics.keys().map(|k| k.to_string()).collect();
            if have != want {
                return Err(self.fail(&pr, "topic-directories", format!("{why}: stream {}: topic directories {:?} but live topics {:?}", s.id, have, want)));
            }
            for t in s.topics.values() {
                let pdir = tdir.join(t.id.to_string()).join("partitions");
                let have = list(&pdir);
                let want: BTreeSet<String> = (1..=t.partitions).map(|k| k.to_string()).collect();
                if have != want {
                    return Err(self.fail(&pr, "partition-directories", format!("{why}: topic {}/{}: partition directories {:?} but partitions {:?}", s.id, t.id, have, want)));
                }
            }
        }
        Ok(())
    }

    /// every surviving topic still holds its messages (C05), full read over TCP
    fn messages_check(&mut self, why: &str) -> Check {
        let Some(pr) = self.attr(&["C05", "C06", "C19"]) else { return Ok(()) };
        let n = self.node.as_ref().unwrap();
        let c = self.tcp.as_ref().unwrap();
        let mut bad: Option<String> = None;
        'outer: for s in self.streams.values() {
            for t in s.topics.values() {
                for (pi, want) in t.msgs.iter().enumerate() {
                    let r = n.block_on(async {
                        c.poll_messages(
                            &Identifier::numeric(s.id).unwrap(),
                            &Identifier::numeric(t.id).unwrap(),
                            Some(pi as u32 + 1),
                            &Consumer::new(Identifier::numeric(77).unwrap()),
                            &PollingStrategy::offset(0),
                            1000,
                            false,
                        )
                        .await
                    });
                    match r {
                        Err(e) => {
                            bad = Some(format!("poll of {}/{}/{} failed: {e}", s.id, t.id, pi + 1));
                            break 'outer;
                        }
                        Ok(pm) => {
                            let got: Vec<Vec<u8>> = pm.messages.iter().map(|m| m.payload.to_vec()).collect();
                            if &got != want {
                                bad = Some(format!("topic {}/{} partition {}: {} messages readable, {} were acknowledged", s.id, t.id, pi + 1, got.len(), want.len()));
                                break 'outer;
                            }
                        }
                    }
                }
            }
        }
        if let Some(b) = bad {
            self.check_panics("poll")?;
            return Err(self.fail(&pr, "messages-lost", format!("{why}: {b}")));
        }
        Ok(())
    }
}
