//! In-process embedding of the real server: one `Node` = one server incarnation
//! (System + TCP listener + optional HTTP listener) on its own tokio runtime.

use iggy::client::{Client, UserClient};
use iggy::confirmation::Confirmation;
use iggy::error::IggyError;
use iggy::http::client::HttpClient;
use iggy::tcp::client::TcpClient;
use iggy::tcp::config::{TcpClientConfig, TcpClientReconnectionConfig};
use iggy::utils::byte_size::IggyByteSize;
use iggy::utils::duration::IggyDuration;
use iggy::utils::expiry::IggyExpiry;
use iggy::utils::topic_size::MaxTopicSize;
use serde::{Deserialize, Serialize};
use server::channels::commands::maintain_messages::{
    MaintainMessagesCommand, MaintainMessagesExecutor,
};
use server::channels::server_command::ServerCommand as ServerCommandTrait;
use server::configs::resource_quota::MemoryResourceQuota;
use server::configs::server::ServerConfig;
use server::configs::system::SystemConfig;
use server::http::http_server;
use server::streaming::systems::system::{SharedSystem, System};
use server::tcp::tcp_server;
use std::net::SocketAddr;
use std::panic::AssertUnwindSafe;
use std::path::Path;
use std::str::FromStr;
use std::sync::Arc;
use std::time::Duration;

pub const KEY_A: &str = "/bivlvG51eEbKQXN3/aWCrrGcTMb8P1JZNSbC7obGPo=";
pub const KEY_B: &str = "3q2+796tvu/erb7v3q2+796tvu/erb7v3q2+796tvu8=";

/// Fixed start of the frozen clock: 2023-11-14T22:13:20Z in microseconds.
pub const CLOCK_BASE_US: u64 = 1_700_000_000_000_000;

#[derive(Debug, Clone, Copy, PartialEq, Eq, Serialize, Deserialize)]
pub enum CacheMode {
    Off,
    Big,
    Tiny,
}

impl CacheMode {
    /// the message cache is fixed per process (CacheMemoryTracker is a process-global
    /// OnceLock); the coordinator chooses it per worker through VERIF_CACHE.
    pub fn from_env() -> CacheMode {
        match std::env::var("VERIF_CACHE").as_deref() {
            Ok("big") => CacheMode::Big,
            Ok("tiny") => CacheMode::Tiny,
            _ => CacheMode::Off,
        }
    }
    pub fn as_str(&self) -> &'static str {
        match self {
            CacheMode::Off => "off",
            CacheMode::Big => "big",
            CacheMode::Tiny => "tiny",
        }
    }
}

/// The generated part of the server configuration.
#[derive(Debug, Clone, PartialEq, Serialize, Deserialize)]
pub struct NodeCfg {
    pub save_threshold: u32,
    pub segment_size: u64,
    pub cache_indexes: bool,
    pub fsync: bool,
    pub no_wait: bool,
    pub dedup: bool,
    /// 0 = off, 1 = KEY_A, 2 = KEY_B, 3 = enabled with an unusable key (16 bytes instead of 32)
    pub encryption: u8,
    /// deduplication ids never expire (expiry 0 = "unlimited") instead of after a TTL far beyond the run
    #[serde(default)]
    pub dedup_ids_never_expire: bool,
    /// server default message expiry in microseconds (None = never)
    pub default_expiry_us: Option<u64>,
    /// server default max topic size in bytes (None = unlimited)
    pub default_max_topic_size: Option<u64>,
    pub delete_oldest: bool,
    pub validate_checksum: bool,
    #[serde(default)]
    pub http: bool,
    /// issue JWTs that never expire (needed under the frozen clock: the JWT library validates `exp` against the real clock)
    #[serde(default)]
    pub jwt_never_expire: bool,
    #[serde(default = "default_workers")]
    pub rt_workers: usize,
}

fn default_workers() -> usize {
    2
}

impl Default for NodeCfg {
    fn default() -> Self {
        NodeCfg {
            save_threshold: 1000,
            segment_size: 1_000_000_000,
            cache_indexes: true,
            fsync: false,
            no_wait: false,
            dedup: false,
            encryption: 0,
            dedup_ids_never_expire: false,
            default_expiry_us: None,
            default_max_topic_size: None,
            delete_oldest: false,
            validate_checksum: false,
            http: false,
            jwt_never_expire: false,
            rt_workers: 2,
        }
    }
}

impl NodeCfg {
    pub fn system_config(&self, dir: &str, cache: CacheMode) -> SystemConfig {
        let mut c = SystemConfig::default();
        c.path = dir.to_string();
        c.partition.messages_required_to_save = self.save_threshold;
        c.partition.enforce_fsync = self.fsync;
        c.partition.validate_checksum = self.validate_checksum;
        c.state.enforce_fsync = self.fsync;
        c.segment.size = IggyByteSize::from(self.segment_size);
        c.segment.cache_indexes = self.cache_indexes;
        c.segment.server_confirmation = if self.no_wait {
            Confirmation::NoWait
        } else {
            Confirmation::Wait
        };
        c.segment.message_expiry = match self.default_expiry_us {
            None => IggyExpiry::NeverExpire,
            Some(us) => IggyExpiry::ExpireDuration(IggyDuration::from(us)),
        };
        c.segment.archive_expired = false;
        c.topic.max_size = match self.default_max_topic_size {
            None => MaxTopicSize::Unlimited,
            Some(b) => MaxTopicSize::Custom(IggyByteSize::from(b)),
        };
        c.topic.delete_oldest_segments = self.delete_oldest;
        c.message_deduplication.enabled = self.dedup;
        c.message_deduplication.max_entries = 1_000_000;
        // moka runs on its own clock; a TTL far beyond any run keeps ids "within the
        // configured time-to-live" as the statement of C18 allows.
        c.message_deduplication.expiry = if self.dedup_ids_never_expire { IggyDuration::from(0u64) } else { IggyDuration::from_str("100h").unwrap() };
        match self.encryption {
            0 => c.encryption.enabled = false,
            1 => {
                c.encryption.enabled = true;
                c.encryption.key = KEY_A.to_string();
            }
            3 => {
                c.encryption.enabled = true;
                c.encryption.key = "MTIzNDU2Nzg5MDEyMzQ1Ng==".to_string(); // 16 bytes: not a usable AES-256 key
            }
            _ => {
                c.encryption.enabled = true;
                c.encryption.key = KEY_B.to_string();
            }
        }
        match cache {
            CacheMode::Off => c.cache.enabled = false,
            CacheMode::Big => {
                c.cache.enabled = true;
                c.cache.size = MemoryResourceQuota::Bytes(IggyByteSize::from(2_000_000_000u64));
            }
            CacheMode::Tiny => {
                c.cache.enabled = true;
                c.cache.size = MemoryResourceQuota::Bytes(IggyByteSize::from(3_000u64));
            }
        }
        c.recovery.recreate_missing_state = true;
        c
    }

    /// The constraints `ServerConfig::validate` puts on the generated fields (the full
    /// validator also probes system memory and prints, so it is mirrored, not called,
    /// on the hot path; `self_check_validate` calls the real one).
    pub fn is_valid(&self) -> bool {
        if self.segment_size > 1_000_000_000 {
            return false;
        }
        if let Some(m) = self.default_max_topic_size {
            if m < self.segment_size {
                return false;
            }
        }
        true
    }
}

pub enum StartError {
    Init(IggyError),
    Panic(String),
}

impl std::fmt::Debug for StartError {
    fn fmt(&self, f: &mut std::fmt::Formatter<'_>) -> std::fmt::Result {
        match self {
            StartError::Init(e) => write!(f, "init error: {e} ({})", e.as_code()),
            StartError::Panic(p) => write!(f, "panic during start: {p}"),
        }
    }
}

pub struct Node {
    pub rt: tokio::runtime::Runtime,
    pub system: SharedSystem,
    pub tcp_addr: SocketAddr,
    pub http_addr: Option<SocketAddr>,
    pub cfg: NodeCfg,
    pub dir: String,
}

impl Node {
    pub fn start(cfg: &NodeCfg, dir: &Path) -> Result<Node, StartError> {
        let cache = CacheMode::from_env();
        server::verif::reset_process_globals();
        let dir_s = dir.to_string_lossy().to_string();
        let rt = tokio::runtime::Builder::new_multi_thread()
            .worker_threads(cfg.rt_workers.max(1))
            .max_blocking_threads(64)
            .enable_all()
            .thread_name("node-rt")
            .build()
            .expect("runtime");
        let sys_cfg = Arc::new(cfg.system_config(&dir_s, cache));
        let server_cfg = ServerConfig::default();
        let cfg2 = cfg.clone();
        let started = std::panic::catch_unwind(AssertUnwindSafe(|| {
            rt.block_on(async {
                let system = SharedSystem::new(System::new(
                    sys_cfg.clone(),
                    server_cfg.data_maintenance.clone(),
                    server_cfg.personal_access_token.clone(),
                ));
                // same order as main.rs
                system.write().await.get_stats().await?;
                system.write().await.init().await?;
                let mut tcp = server_cfg.tcp.clone();
                tcp.address = "127.0.0.1:0".to_string();
                let tcp_addr = tcp_server::start(tcp, system.clone()).await;
                let http_addr = if cfg2.http {
                    let mut http = server_cfg.http.clone();
                    http.address = "127.0.0.1:0".to_string();
                    if cfg2.jwt_never_expire {
                        http.jwt.access_token_expiry = IggyExpiry::NeverExpire;
                    }
                    Some(http_server::start(http, system.clone()).await)
                } else {
                    None
                };
                Ok::<_, IggyError>((system, tcp_addr, http_addr))
            })
        }));
        match started {
            Err(p) => {
                let msg = if let Some(s) = p.downcast_ref::<&str>() {
                    s.to_string()
                } else if let Some(s) = p.downcast_ref::<String>() {
                    s.clone()
                } else {
                    "panic".to_string()
                };
                rt.shutdown_background();
                Err(StartError::Panic(msg))
            }
            Ok(Err(e)) => {
                rt.shutdown_background();
                Err(StartError::Init(e))
            }
            Ok(Ok((system, tcp_addr, http_addr))) => Ok(Node {
                rt,
                system,
                tcp_addr,
                http_addr,
                cfg: cfg.clone(),
                dir: dir_s,
            }),
        }
    }

    /// Graceful shutdown exactly as main.rs does it: `system.shutdown()`, then the
    /// runtime is dropped (process exit).
    pub fn stop_clean(self) -> Result<(), IggyError> {
        let r = self.rt.block_on(async {
            let mut s = self.system.write().await;
            s.shutdown().await
        });
        drop(self.system);
        let mark = crate::common::panic_mark();
        drop(self.rt);
        crate::common::discard_panics_since(mark);
        r
    }

    /// Process death: nothing is flushed by the server; queued blocking file writes
    /// complete (they are already in the kernel's hands in a real process too, and
    /// tokio runs mandatory blocking tasks on shutdown).
    pub fn kill(self) {
        drop(self.system);
        let mark = crate::common::panic_mark();
        drop(self.rt);
        crate::common::discard_panics_since(mark);
    }

    pub fn tcp_client(&self) -> Result<TcpClient, IggyError> {
        let cfg = TcpClientConfig {
            server_address: self.tcp_addr.to_string(),
            reconnection: TcpClientReconnectionConfig {
                enabled: false,
                ..Default::default()
            },
            heartbeat_interval: IggyDuration::from_str("1h").unwrap(),
            nodelay: true,
            ..Default::default()
        };
        let c = TcpClient::create(Arc::new(cfg))?;
        self.rt.block_on(async { Client::connect(&c).await })?;
        Ok(c)
    }

    pub fn tcp_root(&self) -> Result<TcpClient, IggyError> {
        self.tcp_login("iggy", "iggy")
    }

    pub fn tcp_login(&self, user: &str, password: &str) -> Result<TcpClient, IggyError> {
        let c = self.tcp_client()?;
        self.rt.block_on(async { c.login_user(user, password).await })?;
        Ok(c)
    }

    pub fn http_login(&self, user: &str, password: &str) -> Result<HttpClient, IggyError> {
        let c = self.http_client()?;
        self.rt.block_on(async { c.login_user(user, password).await })?;
        Ok(c)
    }

    pub fn http_client(&self) -> Result<HttpClient, IggyError> {
        let addr = self.http_addr.expect("http not enabled");
        HttpClient::new(&format!("http://{addr}"))
    }

    pub fn http_root(&self) -> Result<HttpClient, IggyError> {
        let c = self.http_client()?;
        self.rt.block_on(async { c.login_user("iggy", "iggy").await })?;
        Ok(c)
    }

    pub fn block_on<F: std::future::Future>(&self, f: F) -> F::Output {
        self.rt.block_on(f)
    }

    /// What the background message saver does on its timer.
    pub fn background_save(&self) -> Result<usize, IggyError> {
        self.rt
            .block_on(async { self.system.read().await.persist_messages().await })
    }

    /// One pass of the maintenance executor (what the timer triggers in the binary).
    pub fn maintain(&self, clean: bool) {
        self.rt.block_on(async {
            let mut ex = MaintainMessagesExecutor;
            ex.execute(&self.system, MaintainMessagesCommand::verif_new(clean, false))
                .await;
        })
    }

    /// One pass of the personal-access-token cleaner (what its timer triggers in the binary).
    pub fn clean_tokens(&self) {
        use server::channels::commands::clean_personal_access_tokens::{CleanPersonalAccessTokensCommand, CleanPersonalAccessTokensExecutor};
        self.rt.block_on(async {
            let mut ex = CleanPersonalAccessTokensExecutor;
            ex.execute(&self.system, CleanPersonalAccessTokensCommand).await;
        })
    }

    /// Let spawned server tasks (segment close + fsync, persister) make progress.
    pub fn settle(&self, ms: u64) {
        self.rt
            .block_on(async { tokio::time::sleep(Duration::from_millis(ms)).await })
    }
}

pub fn set_clock(us: u64) {
    iggy::verif::set_frozen_now_micros(us);
}
pub fn advance_clock(us: u64) -> u64 {
    iggy::verif::advance_frozen_now_micros(us)
}
pub fn now_clock() -> u64 {
    iggy::verif::frozen_now_micros().unwrap_or(0)
}
pub fn disarm_clock() {
    iggy::verif::disarm_frozen_clock();
}

/// Calls the server's own validator once on a generated configuration (slow, prints).
pub fn self_check_validate(cfg: &NodeCfg) -> bool {
    use iggy::validatable::Validatable;
    let mut sc = ServerConfig::default();
    sc.system = Arc::new(cfg.system_config("/dev/shm/none", CacheMode::Off));
    sc.validate().is_ok()
}
