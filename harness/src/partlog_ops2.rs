// included into partlog.rs

impl<'a> Interp<'a> {
    // ------------------------------------------------------------ poll (C02)

    fn op_poll(&mut self, part: u16, sel: &PollSel, count: u32, consumer: u8, auto_commit: bool) -> Check {
        if self.wrong_key {
            return Ok(());
        }
        let pid = self.pid_of(part);
        let idx = (pid - 1) as usize;
        let consumer_id = 1 + consumer as u32;
        let first = self.parts[idx].first_retained;
        let next = self.parts[idx].next();
        let obs = self.observe(pid);
        // resolve the request and the model's answer
        let (strat, lo, below_earliest, desc): (PollingStrategy, u64, bool, String) = match sel {
            PollSel::Offset(os) => {
                let o = match os {
                    OffSel::Frac(f) => ((*f as u64) * (next + 1)) >> 16,
                    OffSel::Edge(k, d) => {
                        let base = match k % 6 {
                            0 => 0,
                            1 => first,
                            2 => next.saturating_sub(1),
                            3 => obs.get(obs.len() / 2).map(|s| s.start).unwrap_or(0),
                            4 => obs.last().map(|s| (s.current + 1).saturating_sub(s.unsaved as u64)).unwrap_or(0),
                            _ => next + 3,
                        };
                        (base as i64 + *d as i64).max(0) as u64
                    }
                };
                (PollingStrategy::offset(o), o.max(first), o < first, format!("offset {o}"))
            }
            PollSel::Timestamp(f, d) => {
                let ret = self.parts[idx].retained();
                let t = if ret == 0 {
                    (self.clock as i64 + *d as i64) as u64
                } else {
                    let k = first + (((*f as u64) * ret) >> 16);
                    (self.parts[idx].msgs[k as usize].ts as i64 + *d as i64) as u64
                };
                // first retained message with ts >= t
                let mut lo = next;
                for o in first..next {
                    if self.parts[idx].msgs[o as usize].ts >= t {
                        lo = o;
                        break;
                    }
                }
                (PollingStrategy::timestamp(IggyTimestamp::from(t)), lo, false, format!("timestamp {t}"))
            }
            PollSel::First => (PollingStrategy::first(), first, first > 0, "first".into()),
            PollSel::Last => {
                let n = (count as u64).min(self.parts[idx].retained());
                (PollingStrategy::last(), next - n, false, "last".into())
            }
            PollSel::Next => {
                let lo = match self.parts[idx].offsets.get(&consumer_id) {
                    None => first,
                    Some(s) => (*s + 1).max(first),
                };
                let below = match self.parts[idx].offsets.get(&consumer_id) {
                    None => first > 0,
                    Some(s) => *s + 1 < first,
                };
                (PollingStrategy::next(), lo, below, "next".into())
            }
        };
        self.quiesce_nowait();
        let hi_excl = (lo + count as u64).min(next).max(lo.min(next));
        let lo = lo.min(next);
        let want = (hi_excl - lo) as usize;
        // poll (no-wait quiesce: retry short answers)
        let deadline = std::time::Instant::now() + std::time::Duration::from_secs(3);
        let pm = loop {
            let r = self.raw_poll(pid, &strat, count, consumer_id, auto_commit);
            match r {
                Ok(pm) => {
                    if pm.messages.len() >= want || !self.cfg.no_wait || std::time::Instant::now() > deadline {
                        break pm;
                    }
                    self.node().settle(2);
                }
                Err(e) => {
                    self.check_panics("poll")?;
                    if conn_lost(&e) {
                        self.connect()?;
                    }
                    if let Some(pr) = self.attr(&["C02", "C14", "C03", "C01"]) {
                        return Err(self.fail(&pr, "poll-error", format!("poll({desc}, count {count}) on partition {pid} failed: {e}")));
                    }
                    return Ok(());
                }
            }
        };
        self.check_panics("poll")?;
        // labels (C02 non-triviality)
        if want > 0 {
            let hi = hi_excl - 1;
            let touched: Vec<&SegObs> = obs.iter().filter(|s| s.start <= hi && s.current >= lo && (s.current >= s.start)).collect();
            if touched.len() >= 2 {
                self.out.label("poll-multi-segment");
            }
            if let Some(s) = obs.last() {
                if s.unsaved > 0 {
                    let first_unsaved = (s.current + 1).saturating_sub(s.unsaved as u64);
                    if lo < first_unsaved && hi >= first_unsaved {
                        self.out.label("poll-spans-disk-and-buffer");
                    }
                }
            }
            if touched.len() == 1 && touched[0].start > 0 && want >= 2 {
                self.out.label("poll-in-later-segment");
            }
            if self.parts[idx].appended_after_restart {
                self.out.label("poll-after-restart-append");
            }
            if below_earliest {
                self.out.label("poll-below-earliest");
            }
            if self.focus() == "C02"
                && (touched.len() >= 2
                    || self.out.labels.contains(&"poll-spans-disk-and-buffer")
                    || self.out.labels.contains(&"poll-in-later-segment")
                    || self.parts[idx].appended_after_restart)
            {
                self.out.nontrivial = true;
            }
        }
        // compare
        let owner = if below_earliest { self.attr(&["C14"]) } else { self.attr(&["C02", "C14", "C03", "C07"]) };
        if let Some(pr) = owner {
            let encrypted = self.cfg.encryption != 0;
            if below_earliest {
                // C14: "starts from the earliest message still available"
                if want > 0 {
                    if pm.messages.is_empty() {
                        return Err(self.fail(&pr, "poll-below-earliest-empty", format!(
                            "poll({desc}, count {count}) reaches below the earliest retained offset {first} of partition {pid} and returned nothing although offsets {first}..{} are available",
                            next - 1)).tag("below-earliest"));
                    }
                    if pm.messages[0].offset != first {
                        return Err(self.fail(&pr, "poll-below-earliest-start", format!(
                            "poll({desc}) below the earliest retained offset {first} starts at {}", pm.messages[0].offset)).tag("below-earliest"));
                    }
                }
                for (j, m) in pm.messages.iter().enumerate() {
                    let o = first + j as u64;
                    if o >= next || j as u64 >= count as u64 {
                        return Err(self.fail(&pr, "poll-below-earliest-extra", format!("poll({desc}) returned more than available/asked")));
                    }
                    let mm = &mut self.parts[idx].msgs[o as usize];
                    if let Err(d) = msgs::compare(m, o, mm, encrypted, true) {
                        return Err(self.fail(&pr, "poll-mismatch", format!("poll({desc}, count {count}) partition {pid}: {d}")));
                    }
                }
            } else {
                if pm.messages.len() != want {
                    let offs: Vec<u64> = pm.messages.iter().map(|m| m.offset).collect();
                    return Err(self.fail(&pr, "poll-wrong-slice", format!(
                        "poll({desc}, count {count}) on partition {pid} (retained {first}..{next}, cache {}) returned {} messages {:?}..{:?}, expected {} messages: offsets {}..{}; segments={:?}",
                        node::CacheMode::from_env().as_str(), pm.messages.len(), offs.first(), offs.last(), want, lo, hi_excl, obs)).tag(format!("kind:{}", desc.split(' ').next().unwrap_or(""))));
                }
                for (j, m) in pm.messages.iter().enumerate() {
                    let o = lo + j as u64;
                    let mm = &mut self.parts[idx].msgs[o as usize];
                    if let Err(d) = msgs::compare(m, o, mm, encrypted, true) {
                        return Err(self.fail(&pr, "poll-mismatch", format!("poll({desc}, count {count}) partition {pid}: {d}")));
                    }
                }
                let exp_cur = self.parts[idx].current();
                if pm.current_offset != exp_cur {
                    return Err(self.fail(&pr, "poll-current-offset", format!("poll({desc}) reports current_offset {} expected {}", pm.current_offset, exp_cur)));
                }
            }
        }
        if auto_commit {
            if let Some(last) = pm.messages.last() {
                self.parts[idx].offsets.insert(consumer_id, last.offset);
            }
        }
        Ok(())
    }

    // ------------------------------------------------------------ restart (C03, C19)

    fn op_restart(&mut self, drop_index: bool, new_key: Option<u8>) -> Check {
        let prop = self.focus().to_string();
        // C16: sizes after a full flush must be what the restarted server reports
        if self.focus() == "C16" && !self.wrong_key {
            self.flush_all();
            let t = self.topic_details()?;
            self.sizes_before_restart = Some((t.size.as_bytes_u64(), t.partitions.iter().map(|p| p.size.as_bytes_u64()).collect()));
        }
        if let Some(c) = self.client.take() {
            let n = self.node();
            let _ = n.block_on(async { iggy::client::Client::shutdown(&c).await });
        }
        // buffered messages are persisted by shutdown(); under no-wait that only queues them
        if self.cfg.no_wait && self.p.masked("KF-C03-1") {
            // known finding KF-C03-1: shutdown only queues the buffered messages
            self.out.exclude("KF-C03-1");
            let _ = self.node().background_save();
            if !self.quiesce_nowait_for(30) {
                // the machine is too loaded for the mask to be applied (the persister did not get to
                // write within 30 s): the rest of this case is not interpreted (counted, never a verdict)
                self.out.label("model-limit-nowait-quiesce-timeout");
                self.abort = true;
                return Ok(());
            }
        }
        let had_retained = self.parts.iter().any(|p| p.retained() > 0);
        let rolled = self.out.labels.contains(&"roll-over");
        let node = self.node.take().unwrap();
        let r = node.stop_clean();
        self.check_panics("shutdown")?;
        if let Err(e) = r {
            return Err(self.fail(&prop, "shutdown-failed", format!("graceful shutdown failed: {e}")));
        }
        if drop_index && self.cfg.cache_indexes {
            for f in list_files(&self.dir.path) {
                if f.extension().map(|e| e == "index").unwrap_or(false) {
                    let _ = std::fs::remove_file(&f);
                }
            }
            self.out.label("restart-index-removed");
        }
        if let Some(k) = new_key {
            let k = if k == 0 { 2 } else { k };
            self.cfg.encryption = k;
        }
        let mismatch = self.cfg.encryption != self.data_key;
        let mut started = self.start_node();
        if mismatch {
            self.out.label("restart-with-other-key");
            if self.enc_payloads.len() > 0 {
                self.out.nontrivial = true;
            }
            match &started {
                Err(StartError::Init(_)) => {
                    // start-up refused: the allowed outcome; go back to the right key
                    let _ = take_panics();
                    self.out.label("other-key-start-refused");
                }
                Err(StartError::Panic(m)) if self.cfg.encryption == 3 => {
                    // an unusable key (wrong length): the server refuses to start, loudly - the allowed outcome
                    let _ = take_panics();
                    let _ = m;
                    self.out.label("unusable-key-start-refused");
                }
                Err(StartError::Panic(m)) => {
                    return Err(self.fail("C19", "other-key-start-panics", format!("start-up under another key panicked: {m}")));
                }
                Ok(()) => {
                    self.connect()?;
                    // nothing may be delivered as valid content
                    for pid in 1..=self.parts.len() as u32 {
                        let idx = (pid - 1) as usize;
                        let r = self.raw_poll(pid, &PollingStrategy::offset(self.parts[idx].first_retained), 10, 99, false);
                        self.check_panics("poll under another key")?;
                        if let Ok(pm) = r {
                            if !pm.messages.is_empty() {
                                return Err(self.fail("C19", "other-key-delivers-content", format!(
                                    "after a restart under another key partition {pid} delivered {} message(s) (first payload {})",
                                    pm.messages.len(), short(&pm.messages[0].payload))));
                            }
                        }
                    }
                    if let Some(c) = self.client.take() {
                        let n = self.node();
                        let _ = n.block_on(async { iggy::client::Client::shutdown(&c).await });
                    }
                    let node = self.node.take().unwrap();
                    let _ = node.stop_clean();
                }
            }
            self.cfg.encryption = self.data_key;
            started = self.start_node();
        }
        self.check_panics("start-up")?;
        if let Err(e) = started {
            return Err(self.fail(&prop, "restart-failed", format!("restart on the same directory failed: {e:?}")).tag("restart"));
        }
        self.connect()?;
        for p in self.parts.iter_mut() {
            p.restarted = true;
        }
        self.balanced_run.clear();
        if had_retained {
            self.events |= 4;
        }
        if self.events & 16 != 0 {
            self.events |= 8;
        }
        self.out.label("restart");
        if self.focus() == "C16" && rolled {
            self.out.nontrivial = true;
        }
        if let Some((tsize, psizes)) = self.sizes_before_restart.take() {
            let t = self.topic_details()?;
            let now: Vec<u64> = t.partitions.iter().map(|p| p.size.as_bytes_u64()).collect();
            if t.size.as_bytes_u64() != tsize || now != psizes {
                return Err(self.fail("C16", "size-differs-across-restart", format!(
                    "topic size {} (partitions {:?}) before a clean restart after a full flush, {} ({:?}) after it",
                    tsize, psizes, t.size.as_bytes_u64(), now)));
            }
        }
        self.all_full_reads("after clean restart")
    }

    // ------------------------------------------------------------ purge

    fn op_purge(&mut self, stream_level: bool) -> Check {
        if self.wrong_key {
            return Ok(());
        }
        let prop = self.focus().to_string();
        let n = self.node();
        let r = if stream_level {
            n.block_on(async { self.cl().purge_stream(&sid()).await })
        } else {
            n.block_on(async { self.cl().purge_topic(&sid(), &tid()).await })
        };
        self.check_panics("purge")?;
        if let Err(e) = r {
            return Err(self.fail(&prop, "purge-failed", format!("purge failed: {e}")));
        }
        let had: u64 = self.parts.iter().map(|p| p.retained()).sum();
        if had > 0 {
            self.out.label("purge-nonempty");
            self.events |= 2;
            if self.focus() == "C16" {
                self.out.nontrivial = true;
            }
        }
        for p in self.parts.iter_mut() {
            p.msgs.clear();
            p.first_retained = 0;
            p.offsets.clear();
            p.seen.clear();
        }
        if stream_level {
            // the sibling topic lives in the purged stream; the sibling stream does not
            self.sib_topic_msgs = 0;
        }
        self.epoch += 1;
        self.all_full_reads("after purge")
    }

    // ------------------------------------------------------------ retention (C14, C15)

    fn op_maintain(&mut self) -> Check {
        if self.wrong_key {
            return Ok(());
        }
        let nparts = self.parts.len();
        let before: Vec<Vec<SegObs>> = (1..=nparts as u32).map(|p| self.observe(p)).collect();
        let size_before = if self.focus() == "C15" { Some(self.topic_details()?.size.as_bytes_u64()) } else { None };
        self.node().maintain(true);
        self.check_panics("maintenance pass")?;
        self.node().settle(1);
        let owner = self.attr(&["C14", "C15", "C01", "C03", "C16"]);
        let expiry = self.eff_expiry_us();
        let limit = self.size_bytes(&self.max_size.clone()).flatten();
        for pid in 1..=nparts as u32 {
            let idx = (pid - 1) as usize;
            let after = self.observe(pid);
            let deleted: Vec<&SegObs> = before[idx]
                .iter()
                .filter(|s| s.size > 0 || s.current > s.start || s.closed)
                .filter(|s| !after.iter().any(|a| a.start == s.start))
                .collect();
            if deleted.is_empty() {
                continue;
            }
            self.out.label("retention-deleted-segment");
            let pr = owner.clone().unwrap_or_else(|| self.focus().to_string());
            let mut new_first = self.parts[idx].first_retained;
            let mut by_size = 0;
            for s in &deleted {
                if !s.closed {
                    return Err(self.fail(&pr, "retention-deleted-open-segment", format!(
                        "partition {pid}: the maintenance pass deleted segment {} .. {} which was not closed", s.start, s.current)));
                }
                if s.current as usize >= self.parts[idx].msgs.len() {
                    return Err(self.fail(&pr, "retention-segment-beyond-log", format!("segment {:?} ends beyond the accepted log", s)));
                }
                let newest = self.parts[idx].msgs[s.current as usize].ts;
                let expired = match expiry {
                    Some(e) => newest + e <= self.clock,
                    None => false,
                };
                if !expired {
                    // only size-limit clean-up may explain it (C15): oldest closed segment, deletion enabled
                    let oldest = before[idx].first().map(|f| f.start) == Some(s.start);
                    let allowed = self.cfg.delete_oldest && limit.is_some() && oldest && by_size == 0;
                    if !allowed {
                        let clause = if expiry.is_none() && !(self.cfg.delete_oldest && limit.is_some()) { "retention-deleted-from-never-expiring" } else { "retention-deleted-unexpired" };
                        return Err(self.fail(&pr, clause, format!(
                            "partition {pid}: pass at clock {} deleted closed segment {}..{} whose newest message has timestamp {} (expiry {:?} us, delete_oldest {}, limit {:?})",
                            self.clock, s.start, s.current, newest, expiry, self.cfg.delete_oldest, limit)));
                    }
                    by_size += 1;
                    self.out.label("size-cleanup-deleted-oldest");
                    if self.focus() == "C15" {
                        self.out.nontrivial = true;
                        if let (Some(sz), Some(l)) = (size_before, limit) {
                            if (sz as f64) < (l as f64) * 0.5 {
                                return Err(self.fail("C15", "size-cleanup-when-not-almost-full", format!(
                                    "oldest segment deleted although the topic held {sz} of {l} bytes")));
                            }
                        }
                    }
                }
                if s.start != new_first {
                    // a legitimate (closed, expired) deletion that leaves a hole: the
                    // reference model only represents a retained suffix, so the rest of
                    // this case is not interpreted (counted, never a verdict)
                    self.out.label("model-limit-retention-hole");
                    self.abort = true;
                    return Ok(());
                }
                new_first = s.current + 1;
            }
            self.parts[idx].first_retained = new_first;
            if self.cfg.dedup {
                self.epoch += 1;
            }
            if self.parts[idx].retained() > 0 {
                self.out.label("retention-kept-younger");
                if self.focus() == "C14" {
                    self.out.nontrivial = true;
                }
            } else {
                self.out.label("retention-emptied-partition");
                self.events |= 16;
            }
            if self.focus() == "C16" {
                self.out.nontrivial = true;
            }
            self.events |= 2;
        }
        self.all_full_reads("after maintenance pass")?;
        // C14: a poll reaching below the earliest retained offset
        if self.focus() == "C14" {
            for pid in 1..=nparts as u32 {
                let idx = (pid - 1) as usize;
                if self.parts[idx].first_retained > 0 {
                    self.op_poll(((pid - 1) as u16) * (65535 / nparts as u16) + 1, &PollSel::Offset(OffSel::Edge(0, 0)), 3, 2, false)?;
                }
            }
        }
        Ok(())
    }

    fn op_update(&mut self, expiry: &ExpirySel, max_size: &SizeSel) -> Check {
        if self.wrong_key {
            return Ok(());
        }
        let prop = self.focus().to_string();
        let valid = self.size_bytes(max_size).is_some();
        let ex = Self::iggy_expiry(expiry);
        let ms = self.iggy_size(max_size);
        let n = self.node();
        let r = n.block_on(async { self.cl().update_topic(&sid(), &tid(), "t1", CompressionAlgorithm::None, None, ex, ms).await });
        self.check_panics("update_topic")?;
        match (r, valid) {
            (Ok(_), true) => {
                self.expiry = expiry.clone();
                self.max_size = max_size.clone();
                self.out.label("topic-updated");
            }
            (Err(e), true) => return Err(self.fail(&prop, "valid-update-refused", format!("update_topic({expiry:?},{max_size:?}) refused: {e}"))),
            (Ok(_), false) => {
                if let Some(pr) = self.attr(&["C15"]) {
                    return Err(self.fail(&pr, "limit-below-segment-accepted", format!(
                        "update_topic accepted max_topic_size {:?} although one segment is {} bytes", max_size, self.cfg.segment_size)));
                }
                self.expiry = expiry.clone();
                self.max_size = max_size.clone();
            }
            (Err(_), false) => {
                self.out.label("limit-below-segment-rejected");
            }
        }
        self.all_full_reads("after update_topic")
    }

    fn op_add_parts(&mut self, k: u8) -> Check {
        if self.wrong_key {
            return Ok(());
        }
        let prop = self.focus().to_string();
        let n = self.node();
        let r = n.block_on(async { self.cl().create_partitions(&sid(), &tid(), k as u32).await });
        self.check_panics("create_partitions")?;
        if let Err(e) = r {
            return Err(self.fail(&prop, "create-partitions-failed", format!("create_partitions({k}) failed: {e}")));
        }
        for _ in 0..k {
            self.parts.push(MPart::default());
        }
        self.balanced_run.clear();
        self.out.label("partitions-added");
        self.all_full_reads("after create_partitions")
    }

    fn op_del_parts(&mut self, k: u8) -> Check {
        if self.wrong_key || (k as usize) >= self.parts.len() {
            return Ok(());
        }
        let prop = self.focus().to_string();
        let n = self.node();
        let r = n.block_on(async { self.cl().delete_partitions(&sid(), &tid(), k as u32).await });
        self.check_panics("delete_partitions")?;
        if let Err(e) = r {
            return Err(self.fail(&prop, "delete-partitions-failed", format!("delete_partitions({k}) failed: {e}")));
        }
        for _ in 0..k {
            let p = self.parts.pop().unwrap();
            if p.retained() > 0 {
                self.out.label("deleted-nonempty-partition");
                if self.focus() == "C16" {
                    self.out.nontrivial = true;
                }
            }
        }
        self.balanced_run.clear();
        self.out.label("partitions-deleted");
        self.all_full_reads("after delete_partitions")
    }

    /// delete ALL partitions, then create `k` new ones: the topic is without partitions for a moment and every
    /// per-partition state (log, offsets, ids seen) starts over
    fn op_replace_parts(&mut self, k: u8) -> Check {
        if self.wrong_key {
            return Ok(());
        }
        let prop = self.focus().to_string();
        let k = k.clamp(1, 3) as u32;
        let all = self.parts.len() as u32;
        let n = self.node();
        let r = n.block_on(async {
            self.cl().delete_partitions(&sid(), &tid(), all).await?;
            self.cl().create_partitions(&sid(), &tid(), k).await
        });
        self.check_panics("delete all partitions / create partitions")?;
        if let Err(e) = r {
            return Err(self.fail(&prop, "replace-partitions-failed", format!("delete_partitions({all}) + create_partitions({k}) failed: {e}")));
        }
        self.parts.clear();
        for _ in 0..k {
            self.parts.push(MPart::default());
        }
        self.balanced_run.clear();
        self.refused_balanced = 0;
        self.epoch += 1;
        self.out.label("all-partitions-replaced");
        self.all_full_reads("after replacing all partitions")
    }

    // ------------------------------------------------------------ C16 counters

    fn counts_check(&mut self, why: &str) -> Check {
        if self.wrong_key {
            return Ok(());
        }
        let t = self.topic_details()?;
        let total: u64 = self.parts.iter().map(|p| p.retained()).sum();
        let f = |s: &Self, clause: &str, d: String| Err(s.fail("C16", clause, format!("{why}: {d}")));
        if t.partitions_count as usize != self.parts.len() || t.partitions.len() != self.parts.len() {
            return f(self, "partitions-count", format!("topic reports {} partitions ({} listed), model has {}", t.partitions_count, t.partitions.len(), self.parts.len()));
        }
        if t.messages_count != total {
            return f(self, "topic-messages-count", format!("topic reports messages_count {} but its partitions retain {} messages", t.messages_count, total));
        }
        let mut psum = 0u64;
        for p in &t.partitions {
            let idx = (p.id - 1) as usize;
            if idx >= self.parts.len() {
                return f(self, "partitions-count", format!("unexpected partition id {}", p.id));
            }
            if p.messages_count != self.parts[idx].retained() {
                return f(self, "partition-messages-count", format!(
                    "partition {} reports messages_count {} but retains {} (offsets {}..{})", p.id, p.messages_count,
                    self.parts[idx].retained(), self.parts[idx].first_retained, self.parts[idx].next()));
            }
            if p.current_offset != self.parts[idx].current() {
                return f(self, "partition-current-offset", format!("partition {} reports current_offset {} expected {}", p.id, p.current_offset, self.parts[idx].current()));
            }
            let segs = self.observe(p.id).len() as u32;
            if p.segments_count != segs {
                return f(self, "partition-segments-count", format!("partition {} reports {} segments, holds {}", p.id, p.segments_count, segs));
            }
            let sz = p.size.as_bytes_u64();
            if sz > (1u64 << 62) {
                return f(self, "size-underflow", format!("partition {} size {} (wrapped)", p.id, sz));
            }
            if self.parts[idx].retained() == 0 && sz != 0 {
                return f(self, "empty-partition-nonzero-size", format!("partition {} retains nothing but reports size {}", p.id, sz));
            }
            psum += sz;
        }
        if t.size.as_bytes_u64() != psum {
            return f(self, "topic-size-sum", format!("topic size {} != sum of partition sizes {}", t.size.as_bytes_u64(), psum));
        }
        // the sibling topic of the same stream: its own figures, then the stream = sum over both topics
        let (mut sib_msgs, mut sib_size, mut topics) = (0u64, 0u64, 1u32);
        if self.case.sibling_segs > 0 {
            let n = self.node();
            let t2 = n.block_on(async { self.cl().get_topic(&sid(), &Identifier::numeric(TOPIC + 1).unwrap()).await });
            match t2 {
                Ok(Some(t2)) => {
                    let p1 = t2.partitions.first().map(|p| (p.messages_count, p.size.as_bytes_u64())).unwrap_or((u64::MAX, 0));
                    if t2.messages_count != self.sib_topic_msgs || p1.0 != self.sib_topic_msgs || t2.size.as_bytes_u64() != p1.1 || (self.sib_topic_msgs == 0 && p1.1 != 0) {
                        return f(self, "sibling-topic-figures", format!(
                            "the sibling topic t2 holds {} messages in one partition; it reports messages_count {} size {}, its partition {} / {}",
                            self.sib_topic_msgs, t2.messages_count, t2.size.as_bytes_u64(), p1.0, p1.1));
                    }
                    sib_msgs = t2.messages_count;
                    sib_size = t2.size.as_bytes_u64();
                    topics = 2;
                }
                other => return f(self, "sibling-topic-figures", format!("get_topic(t2): {:?}", other.map(|_| ()))),
            }
        }
        let n = self.node();
        let s = n.block_on(async { self.cl().get_stream(&sid()).await });
        match s {
            Ok(Some(s)) => {
                if s.messages_count != total + sib_msgs || s.size.as_bytes_u64() != psum + sib_size || s.topics_count != topics {
                    return f(self, "stream-sums", format!(
                        "stream reports messages_count {} size {} topics {}; its topics hold {} + {} messages, sizes {} + {}", s.messages_count, s.size.as_bytes_u64(), s.topics_count, total, sib_msgs, psum, sib_size));
                }
            }
            other => return f(self, "stream-sums", format!("get_stream: {:?}", other.map(|_| ()))),
        }
        Ok(())
    }

    fn stats_check(&mut self) -> Check {
        let n = self.node();
        let st = n.block_on(async { self.cl().get_stats().await });
        let st = match st {
            Ok(s) => s,
            Err(e) => return Err(self.fail("C16", "stats", format!("get_stats failed: {e}"))),
        };
        let mut total: u64 = self.parts.iter().map(|p| p.retained()).sum();
        let mut segs: u32 = (1..=self.parts.len() as u32).map(|p| self.observe(p).len() as u32).sum();
        let t = self.topic_details()?;
        let (mut streams, mut topics, mut parts, mut size) = (1u32, 1u32, self.parts.len(), t.size.as_bytes_u64());
        if self.case.sibling_segs > 0 {
            // statistics = sums over all streams and topics: add what the siblings report / hold
            let n = self.node();
            let t2 = n.block_on(async { self.cl().get_topic(&sid(), &Identifier::numeric(TOPIC + 1).unwrap()).await }).ok().flatten();
            topics += 1;
            parts += 1;
            total += self.sib_topic_msgs;
            segs += self.observe_topic(TOPIC + 1, 1).len() as u32;
            size += t2.map(|t| t.size.as_bytes_u64()).unwrap_or(0);
            if self.has_sibling_stream() {
                let s2 = Identifier::numeric(STREAM + 1).unwrap();
                let sd = n.block_on(async { self.cl().get_stream(&s2).await }).ok().flatten();
                let u1 = n.block_on(async { self.cl().get_topic(&s2, &Identifier::numeric(1).unwrap()).await }).ok().flatten();
                match (&sd, &u1) {
                    (Some(sd), Some(u1)) if sd.messages_count == self.sib_stream_msgs && u1.messages_count == self.sib_stream_msgs && sd.size == u1.size && sd.topics_count == 1 => {}
                    _ => {
                        return Err(self.fail("C16", "sibling-stream-figures", format!(
                            "the sibling stream s2 holds {} messages in one topic; it reports {:?}, its topic {:?}", self.sib_stream_msgs,
                            sd.as_ref().map(|s| (s.messages_count, s.size.as_bytes_u64(), s.topics_count)), u1.as_ref().map(|t| (t.messages_count, t.size.as_bytes_u64())))));
                    }
                }
                streams += 1;
                topics += 1;
                parts += 1;
                total += self.sib_stream_msgs;
                segs += self.observe_at(STREAM + 1, 1, 1).len() as u32;
                size += sd.map(|s| s.size.as_bytes_u64()).unwrap_or(0);
            }
        }
        if st.streams_count != streams || st.topics_count != topics || st.partitions_count as usize != parts || st.segments_count != segs
            || st.messages_count != total || st.consumer_groups_count != 0 || st.messages_size_bytes.as_bytes_u64() != size
        {
            return Err(self.fail("C16", "stats-sums", format!(
                "stats: streams {} topics {} partitions {} segments {} messages {} groups {} size {}; expected {streams} {topics} {parts} {segs} {total} 0 {size}",
                st.streams_count, st.topics_count, st.partitions_count, st.segments_count, st.messages_count, st.consumer_groups_count,
                st.messages_size_bytes.as_bytes_u64())));
        }
        Ok(())
    }

    // ------------------------------------------------------------ C19 at-rest scan

    fn at_rest_scan(&mut self) -> Check {
        let files = list_files(&self.dir.path);
        let mut scanned = 0u64;
        let needles: Vec<&Vec<u8>> = self.enc_payloads.iter().take(150).collect();
        for f in &files {
            let Ok(bytes) = std::fs::read(f) else { continue };
            for nd in &needles {
                scanned += 1;
                if let Some(at) = find_bytes(&bytes, nd) {
                    return Err(self.fail("C19", "payload-in-clear", format!(
                        "payload {} found in clear at byte {at} of {}", short(nd), f.display())));
                }
            }
        }
        self.out.count("at_rest_needle_file_pairs", scanned);
        if !needles.is_empty() {
            self.out.label("at-rest-scan");
            self.out.nontrivial = true;
        }
        Ok(())
    }
}

fn rule_text(p: &Params) -> String {
    let common = "case = (generated server config: save threshold, segment size, index cache, fsync, wait/no-wait, dedup, encryption, default expiry / max size, delete-oldest; partition count; topic expiry / size limit; list of ops Send/Poll/Flush/BgSave/Restart/Purge/Advance/Maintain/UpdateTopic/Add-/DelPartitions) generated by proptest; interpreted against the real server over TCP and a per-partition reference model; distinct = distinct hash of the whole case";
    let nt = match p.property.as_str() {
        "C01" => "non-trivial = an accepted send onto a non-empty partition after a roll-over, a flush/save of a non-empty buffer, a purge, a retention deletion or a restart",
        "C02" => "non-trivial = a poll whose expected range spans saved+unsaved messages, or >=2 segments, or >=2 messages inside a segment with start offset > 0, or follows restart+append",
        "C03" => "non-trivial = a restart with retained messages followed by an accepted send and a full read across the restart boundary",
        "C14" => "non-trivial = a maintenance pass that deleted >=1 segment while younger messages remain, or emptied the partition and was followed by restart + send",
        "C15" => "non-trivial = a send attempted while the reported topic size is at/above the limit, or a size clean-up deletion",
        "C16" => "non-trivial = purge/deletion of a non-empty entity, a retention deletion, or a restart after a roll-over",
        "C17" => "non-trivial = a key reused for a later send, or a full balanced rotation window",
        "C18" => "non-trivial = a repeated id arriving in a later batch than its first occurrence (labels also mark repeats after a restart)",
        "C19" => "non-trivial = >=1 payload of >=8 bytes scanned for at rest, or a restart under another key with data present",
        _ => "non-trivial = any accepted send",
    };
    format!("{common}; {nt}")
}
