//! `offsets` engine (C07), `groups` engine (C08, system tier) and `groupcomp` (C08, component tier).

use crate::common::*;
use crate::msgs;
use crate::node::{Node, NodeCfg};
use crate::runner::{Engine, Params, Tier};
use bytes::Bytes;
use iggy::client::{Client, ConsumerGroupClient, ConsumerOffsetClient, MessageClient, PartitionClient, StreamClient, TopicClient};
use iggy::compression::compression_algorithm::CompressionAlgorithm;
use iggy::consumer::Consumer;
use iggy::error::IggyError;
use iggy::identifier::Identifier;
use iggy::messages::poll_messages::PollingStrategy;
use iggy::messages::send_messages::{Message, Partitioning};
use iggy::tcp::client::TcpClient;
use iggy::utils::expiry::IggyExpiry;
use iggy::utils::topic_size::MaxTopicSize;
use proptest::prelude::*;
use proptest::strategy::BoxedStrategy;
use serde::{Deserialize, Serialize};
use server::streaming::topics::consumer_group::ConsumerGroup;
use std::collections::{BTreeMap, BTreeSet, HashMap};

/// the stream's id differs from the first topic's (1 / 1 hides swapped stream / topic arguments)
const SID: u32 = 2;
fn sid() -> Identifier {
    Identifier::numeric(SID).unwrap()
}
fn tid() -> Identifier {
    Identifier::numeric(1).unwrap()
}

// =====================================================================================
// C07: consumer offsets
// =====================================================================================

pub struct Offsets;

/// an identity that can hold offsets
#[derive(Debug, Clone, PartialEq, Eq, Hash, PartialOrd, Ord, Serialize, Deserialize)]
pub enum Who {
    /// individual consumer with numeric id 1..=3
    Consumer(u8),
    /// individual consumer addressed by name (index into a small pool)
    Named(u8),
    /// consumer group with numeric id 1..=3 (same numbers as the consumers, on purpose)
    Group(u8),
}

#[derive(Debug, Clone, PartialEq, Serialize, Deserialize)]
pub enum OOp {
    Send { part: u16, n: u8 },
    Store { who: Who, part: u16, frac: u16, beyond: Option<u8> },
    Get { who: Who, part: u16 },
    Delete { who: Who, part: u16 },
    PollNext { who: Who, part: u16, count: u8, auto: bool },
    Purge,
    DeleteGroup { g: u8 },
    Restart,
    Flush { part: u16 },
}

#[derive(Debug, Clone, PartialEq, Serialize, Deserialize)]
pub struct OCase {
    pub cfg: NodeCfg,
    pub partitions: u32,
    pub ops: Vec<OOp>,
    /// a second topic with the same partition count, the same consumer names and the same group ids: its
    /// partitions are the "virtual partitions" partitions+1 .. 2*partitions of the model. Purge and group
    /// deletion act on the first topic only - the second one's offsets must not notice.
    #[serde(default)]
    pub two_topics: bool,
}

const CNAMES: [&str; 3] = ["alpha", "c", "consumer-with-a-long-name-0123456789"];

fn who_s() -> BoxedStrategy<Who> {
    prop_oneof![4 => (1u8..=3).prop_map(Who::Consumer), 2 => (0u8..3).prop_map(Who::Named), 4 => (1u8..=3).prop_map(Who::Group)].boxed()
}

struct OInterp<'a> {
    p: &'a Params,
    case: &'a OCase,
    dir: ScratchDir,
    node: Option<Node>,
    tcp: Option<TcpClient>,
    /// payloads per partition since last purge
    log: Vec<Vec<Vec<u8>>>,
    /// (who, partition) -> stored offset
    offs: BTreeMap<(Who, u32), u64>,
    out: Outcome,
    step: usize,
    serial: u64,
    restarted_since_store: BTreeSet<(Who, u32)>,
}

fn consumer_of(w: &Who) -> Consumer {
    match w {
        Who::Consumer(k) => Consumer::new(Identifier::numeric(*k as u32).unwrap()),
        Who::Named(j) => Consumer::new(Identifier::named(CNAMES[*j as usize % 3]).unwrap()),
        Who::Group(k) => Consumer::group(Identifier::numeric(*k as u32).unwrap()),
    }
}

impl<'a> OInterp<'a> {
    fn fail(&self, clause: &str, detail: String) -> Failure {
        let mut f = Failure::new("C07", clause, format!("step {} ({:?}): {}", self.step, self.case.ops.get(self.step), detail));
        if let Some(op) = self.case.ops.get(self.step) {
            let s = format!("{:?}", op);
            if s.contains("Group(") {
                f = f.tag("who:group");
            }
            let name = s.split(|c: char| !c.is_alphanumeric()).next().unwrap_or("").to_string();
            f = f.tag(format!("op:{name}"));
        }
        f
    }
    fn node(&self) -> &Node {
        self.node.as_ref().unwrap()
    }
    fn cl(&self) -> &TcpClient {
        self.tcp.as_ref().unwrap()
    }
    fn pid(&self, sel: u16) -> u32 {
        1 + pick(sel, self.log.len()) as u32
    }
    /// virtual partition -> (topic id, partition id within it)
    fn at(&self, v: u32) -> (Identifier, u32) {
        let parts = self.case.partitions.max(1);
        (Identifier::numeric(1 + (v - 1) / parts).unwrap(), (v - 1) % parts + 1)
    }
    fn in_first_topic(&self, v: u32) -> bool {
        v <= self.case.partitions.max(1)
    }
    fn panics(&mut self, what: &str) -> Check {
        let ps: Vec<_> = take_panics().into_iter().filter(is_repo_panic).collect();
        if let Some(p) = ps.first() {
            return Err(self.fail("server-panic", format!("{what}: server panicked: {} at {}", p.message, p.location)).tag(format!("panic@{}", p.location.rsplit('/').next().unwrap_or(""))));
        }
        Ok(())
    }
    fn current(&self, pid: u32) -> u64 {
        (self.log[(pid - 1) as usize].len() as u64).saturating_sub(1)
    }
    fn start(&mut self) -> Check {
        match Node::start(&self.case.cfg, &self.dir.path) {
            Ok(n) => self.node = Some(n),
            Err(e) => return Err(self.fail("start-failed", format!("{e:?}"))),
        }
        match self.node().tcp_root() {
            Ok(c) => self.tcp = Some(c),
            Err(e) => return Err(self.fail("cannot-connect", format!("{e}"))),
        }
        Ok(())
    }
    fn ensure_groups(&mut self) -> Check {
        let topics = if self.case.two_topics { 2u32 } else { 1 };
        for t in 1..=topics {
            let t = Identifier::numeric(t).unwrap();
            for g in 1..=3u32 {
                let n = self.node();
                let have = n.block_on(async { self.cl().get_consumer_group(&sid(), &t, &Identifier::numeric(g).unwrap()).await });
                if let Ok(None) = have {
                    let r = n.block_on(async { self.cl().create_consumer_group(&sid(), &t, &format!("g{g}"), Some(g)).await });
                    if let Err(e) = r {
                        return Err(self.fail("setup", format!("create_consumer_group({g}) failed: {e}")));
                    }
                }
            }
        }
        Ok(())
    }

    fn run(&mut self) -> Check {
        let _ = take_panics();
        self.start()?;
        let n = self.node();
        let parts = self.case.partitions;
        let r = n.block_on(async {
            self.cl().create_stream("s", Some(SID)).await?;
            self.cl().create_topic(&sid(), "t", parts, CompressionAlgorithm::None, None, Some(1), IggyExpiry::NeverExpire, MaxTopicSize::Unlimited).await?;
            if self.case.two_topics {
                self.cl().create_topic(&sid(), "u", parts, CompressionAlgorithm::None, None, Some(2), IggyExpiry::NeverExpire, MaxTopicSize::Unlimited).await?;
            }
            Ok::<(), IggyError>(())
        });
        if let Err(e) = r {
            return Err(self.fail("setup", format!("{e}")));
        }
        self.log = vec![vec![]; parts as usize * if self.case.two_topics { 2 } else { 1 }];
        if self.case.two_topics {
            self.out.label("two-topics");
        }
        self.ensure_groups()?;
        let ops = self.case.ops.clone();
        for (i, op) in ops.iter().enumerate() {
            self.step = i;
            self.out.steps += 1;
            self.exec(op)?;
            self.panics("after step")?;
        }
        self.step = ops.len();
        // final sweep: every identity on every partition
        self.sweep("end of case")
    }

    /// every identity's view of every partition equals the model (isolation)
    fn sweep(&mut self, why: &str) -> Check {
        let whos: Vec<Who> = (1..=3).map(Who::Consumer).chain((0..3).map(Who::Named)).chain((1..=3).map(Who::Group)).collect();
        for w in whos {
            for pid in 1..=self.log.len() as u32 {
                self.check_get(&w, pid, why)?;
            }
        }
        Ok(())
    }

    fn check_get(&mut self, w: &Who, pid: u32, why: &str) -> Check {
        let n = self.node();
        let c = consumer_of(w);
        let (tp, rp) = self.at(pid);
        let r = n.block_on(async { self.cl().get_consumer_offset(&c, &sid(), &tp, Some(rp)).await });
        self.panics("get_consumer_offset")?;
        let want = self.offs.get(&(w.clone(), pid)).copied();
        match r {
            Ok(info) => {
                let got = info.as_ref().map(|i| i.stored_offset);
                if got != want {
                    let others: Vec<_> = self.offs.iter().filter(|((_, p), _)| *p == pid).map(|((ww, _), o)| (ww.clone(), *o)).collect();
                    return Err(self.fail("get-returns-wrong-offset", format!(
                        "{why}: get_consumer_offset({:?}, partition {pid}) returned {:?}, the model holds {:?}; offsets stored on this partition: {:?}", w, got, want, others)));
                }
                if let Some(i) = info {
                    if i.partition_id != rp {
                        return Err(self.fail("get-wrong-partition", format!("asked partition {rp} of topic {tp}, answer names partition {}", i.partition_id)));
                    }
                    if i.current_offset != self.current(pid) {
                        return Err(self.fail("get-current-offset", format!("get reports current_offset {} expected {}", i.current_offset, self.current(pid))));
                    }
                }
                Ok(())
            }
            Err(e) => {
                if want.is_none() {
                    // "none" may be reported as an error by a transport: acceptable
                    return Ok(());
                }
                Err(self.fail("get-fails", format!("{why}: get_consumer_offset({:?}, partition {pid}) failed: {e} although {:?} was stored", w, want)))
            }
        }
    }

    fn exec(&mut self, op: &OOp) -> Check {
        match op.clone() {
            OOp::Send { part, n: k } => {
                let pid = self.pid(part);
                let mut ms = vec![];
                let mut ps = vec![];
                for _ in 0..k.max(1) {
                    self.serial += 1;
                    let p = msgs::fill(0x0FF5E7 + self.serial, 20);
                    ps.push(p.clone());
                    ms.push(Message::new(None, Bytes::from(p), None));
                }
                let n = self.node();
                let (tp, rp) = self.at(pid);
                let r = n.block_on(async { self.cl().send_messages(&sid(), &tp, &Partitioning::partition_id(rp), &mut ms).await });
                if let Err(e) = r {
                    return Err(self.fail("send-failed", format!("{e}")));
                }
                self.log[(pid - 1) as usize].extend(ps);
                Ok(())
            }
            OOp::Flush { part } => {
                let pid = self.pid(part);
                let n = self.node();
                let (tp, rp) = self.at(pid);
                let _ = n.block_on(async { self.cl().flush_unsaved_buffer(&sid(), &tp, rp, false).await });
                Ok(())
            }
            OOp::Store { who, part, frac, beyond } => {
                let pid = self.pid(part);
                let cur = self.current(pid);
                let offset = match beyond {
                    Some(d) => cur + 1 + d as u64,
                    None => ((frac as u64) * (cur + 1)) >> 16,
                };
                let allowed = offset <= cur;
                let n = self.node();
                let c = consumer_of(&who);
                let (tp, rp) = self.at(pid);
                let r = n.block_on(async { self.cl().store_consumer_offset(&c, &sid(), &tp, Some(rp), offset).await });
                self.panics("store_consumer_offset")?;
                match (r, allowed) {
                    (Ok(_), true) => {
                        self.offs.insert((who.clone(), pid), offset);
                        self.restarted_since_store.remove(&(who.clone(), pid));
                        self.note_same_id(&who, pid);
                    }
                    (Ok(_), false) => {
                        return Err(self.fail("store-beyond-current-accepted", format!("store of offset {offset} accepted although the partition's current offset is {cur}")))
                    }
                    (Err(e), true) => return Err(self.fail("valid-store-refused", format!("store({:?}, partition {pid}, {offset}) refused: {e}", who))),
                    (Err(_), false) => {
                        self.out.label("store-beyond-refused");
                    }
                }
                // a store never changes any other key
                self.sweep("after store")
            }
            OOp::Get { who, part } => {
                let pid = self.pid(part);
                if self.restarted_since_store.contains(&(who.clone(), pid)) && self.offs.contains_key(&(who.clone(), pid)) {
                    self.out.label("get-after-restart");
                    self.out.nontrivial = true;
                }
                self.check_get(&who, pid, "get")
            }
            OOp::Delete { who, part } => {
                let pid = self.pid(part);
                let n = self.node();
                let c = consumer_of(&who);
                let (tp, rp) = self.at(pid);
                let r = n.block_on(async { self.cl().delete_consumer_offset(&c, &sid(), &tp, Some(rp)).await });
                self.panics("delete_consumer_offset")?;
                let had = self.offs.contains_key(&(who.clone(), pid));
                match (r, had) {
                    (Ok(_), _) => {
                        self.offs.remove(&(who.clone(), pid));
                    }
                    (Err(e), true) => return Err(self.fail("delete-of-stored-offset-failed", format!("delete({:?}, partition {pid}) failed: {e}", who))),
                    (Err(_), false) => {}
                }
                self.sweep("after delete")
            }
            OOp::PollNext { who, part, count, auto } => {
                let pid = self.pid(part);
                let idx = (pid - 1) as usize;
                let count = count.max(1) as u32;
                let n = self.node();
                let c = consumer_of(&who);
                let (tp, rp) = self.at(pid);
                let r = n.block_on(async { self.cl().poll_messages(&sid(), &tp, Some(rp), &c, &PollingStrategy::next(), count, auto).await });
                self.panics("poll next")?;
                let pm = match r {
                    Ok(pm) => pm,
                    Err(e) => return Err(self.fail("poll-next-failed", format!("{e}"))),
                };
                let start = match self.offs.get(&(who.clone(), pid)) {
                    None => 0,
                    Some(o) => o + 1,
                };
                let total = self.log[idx].len() as u64;
                let end = (start + count as u64).min(total);
                let want: Vec<u64> = (start.min(total)..end).collect();
                let got: Vec<u64> = pm.messages.iter().map(|m| m.offset).collect();
                if got != want {
                    return Err(self.fail("poll-next-wrong-slice", format!(
                        "poll(next, count {count}) as {:?} on partition {pid} with stored offset {:?} returned offsets {:?}, expected {:?}", who, self.offs.get(&(who.clone(), pid)), got, want)));
                }
                for m in &pm.messages {
                    if m.payload.as_ref() != self.log[idx][m.offset as usize].as_slice() {
                        return Err(self.fail("poll-next-content", format!("offset {} has foreign content", m.offset)));
                    }
                }
                if auto {
                    if let Some(last) = got.last() {
                        self.offs.insert((who.clone(), pid), *last);
                        self.restarted_since_store.remove(&(who.clone(), pid));
                        self.out.label("auto-commit");
                        self.note_same_id(&who, pid);
                        // the committed offset must be readable as the same identity
                        self.out.label("get-after-auto-commit");
                        self.out.nontrivial = true;
                        return self.sweep("after auto-commit poll");
                    }
                }
                Ok(())
            }
            OOp::Purge => {
                let n = self.node();
                let r = n.block_on(async { self.cl().purge_topic(&sid(), &tid()).await });
                self.panics("purge")?;
                if let Err(e) = r {
                    return Err(self.fail("purge-failed", format!("{e}")));
                }
                let first = self.case.partitions.max(1) as usize;
                for l in self.log.iter_mut().take(first) {
                    l.clear();
                }
                if !self.offs.is_empty() {
                    self.out.label("purge-with-offsets");
                }
                if self.offs.keys().any(|(_, v)| *v as usize > first) {
                    self.out.label("purge-beside-offsets-of-the-other-topic");
                    self.out.nontrivial = true;
                }
                self.offs.retain(|(_, v), _| *v as usize > first);
                self.sweep("after purge")
            }
            OOp::DeleteGroup { g } => {
                let g = 1 + (g % 3);
                let n = self.node();
                let r = n.block_on(async { self.cl().delete_consumer_group(&sid(), &tid(), &Identifier::numeric(g as u32).unwrap()).await });
                self.panics("delete_consumer_group")?;
                if let Err(e) = r {
                    return Err(self.fail("delete-group-failed", format!("{e}")));
                }
                let had = self.offs.keys().any(|(w, _)| *w == Who::Group(g));
                if had {
                    self.out.label("group-deleted-with-offsets");
                }
                let first = self.case.partitions.max(1);
                if self.offs.keys().any(|(w, v)| *w == Who::Group(g) && *v > first) {
                    self.out.label("group-deleted-beside-its-namesake-in-the-other-topic");
                    self.out.nontrivial = true;
                }
                self.offs.retain(|(w, v), _| !(*w == Who::Group(g) && *v <= first));
                self.ensure_groups()?;
                self.sweep("after consumer group deletion")
            }
            OOp::Restart => {
                if let Some(c) = self.tcp.take() {
                    let _ = self.node().block_on(async { c.shutdown().await });
                }
                let node = self.node.take().unwrap();
                if let Err(e) = node.stop_clean() {
                    return Err(self.fail("shutdown-failed", format!("{e}")));
                }
                self.start()?;
                self.panics("restart")?;
                for k in self.offs.keys() {
                    self.restarted_since_store.insert(k.clone());
                }
                self.out.label("restart");
                self.sweep("after restart")
            }
        }
    }

    fn note_same_id(&mut self, who: &Who, pid: u32) {
        let twin = match who {
            Who::Consumer(k) => Some(Who::Group(*k)),
            Who::Group(k) => Some(Who::Consumer(*k)),
            _ => None,
        };
        if let Some(t) = twin {
            if self.offs.contains_key(&(t, pid)) {
                self.out.label("consumer-and-group-same-id-same-partition");
                self.out.nontrivial = true;
            }
        }
    }
}

impl Engine for Offsets {
    type Case = OCase;
    fn strategy(&self, p: &Params) -> BoxedStrategy<OCase> {
        let max_ops = if p.tier == Tier::Thorough { 50 } else { 30 };
        let op = prop_oneof![
            8 => (any::<u16>(), 1u8..6).prop_map(|(part, n)| OOp::Send { part, n }),
            10 => (who_s(), any::<u16>(), any::<u16>(), prop_oneof![5 => Just(None), 1 => (0u8..3).prop_map(Some)]).prop_map(|(who, part, frac, beyond)| OOp::Store { who, part, frac, beyond }),
            6 => (who_s(), any::<u16>()).prop_map(|(who, part)| OOp::Get { who, part }),
            3 => (who_s(), any::<u16>()).prop_map(|(who, part)| OOp::Delete { who, part }),
            8 => (who_s(), any::<u16>(), 1u8..5, any::<bool>()).prop_map(|(who, part, count, auto)| OOp::PollNext { who, part, count, auto }),
            1 => Just(OOp::Purge),
            2 => (0u8..3).prop_map(|g| OOp::DeleteGroup { g }),
            3 => Just(OOp::Restart),
            1 => any::<u16>().prop_map(|part| OOp::Flush { part }),
        ];
        (prop_oneof![Just(1u32), Just(3), Just(1000)], prop_oneof![Just(600u64), Just(1_000_000)], 1u32..=3, proptest::collection::vec(op, 1..=max_ops), any::<bool>())
            .prop_map(|(thr, seg, partitions, ops, two_topics)| OCase { cfg: NodeCfg { save_threshold: thr, segment_size: seg, ..NodeCfg::default() }, partitions, ops, two_topics })
            .boxed()
    }
    fn run(&self, case: &OCase, p: &Params) -> Outcome {
        let mut it = OInterp {
            p,
            case,
            dir: ScratchDir::new("offs"),
            node: None,
            tcp: None,
            log: vec![],
            offs: BTreeMap::new(),
            out: Outcome::default(),
            step: 0,
            serial: 0,
            restarted_since_store: BTreeSet::new(),
        };
        let _ = it.p;
        let r = it.run();
        let mut out = std::mem::take(&mut it.out);
        if let Some(c) = it.tcp.take() {
            if let Some(n) = it.node.as_ref() {
                let _ = n.block_on(async { c.shutdown().await });
            }
        }
        if let Some(n) = it.node.take() {
            n.kill();
        }
        let _ = take_panics();
        if let Err(f) = r {
            out.failure = Some(f);
        }
        out
    }
    fn rule(&self, _p: &Params) -> String {
        "case = generated history of send / store / get / delete / poll(next, auto-commit on|off) / purge / consumer-group deletion / restart by 9 identities (consumers 1..3, three named consumers, groups 1..3 - group ids equal consumer ids on purpose) on 1..3 partitions, always with an explicit partition id; model = map (identity, partition) -> offset; after every store / delete / auto-commit / purge / deletion / restart every identity's view of every partition is read back and compared (isolation); non-trivial = a consumer and a group with the same numeric id both hold offsets on one partition, or a get follows an auto-commit poll, or a restart separates store and get".into()
    }
    fn assumptions(&self, _p: &Params) -> Vec<String> {
        vec!["offsets are stored / read with an explicit partition id (8.1-7)".into(), "named consumers are assumed not to collide with each other or with ids 1..3 under the server's 32-bit name hash".into()]
    }
}

// =====================================================================================
// C08: consumer groups, component tier
// =====================================================================================

pub struct GroupComp;

#[derive(Debug, Clone, PartialEq, Serialize, Deserialize)]
pub enum GOp {
    Add(u8),
    Del(u8),
    Reassign(u8),
    Calc(u8, u8),
}

#[derive(Debug, Clone, PartialEq, Serialize, Deserialize)]
pub struct GCase {
    pub partitions: u8,
    pub ops: Vec<GOp>,
}

fn assignment_valid(shares: &BTreeMap<u32, Vec<u32>>, partitions: u32) -> Result<(), String> {
    if shares.is_empty() {
        return Ok(());
    }
    let mut seen: HashMap<u32, u32> = HashMap::new();
    for (m, ps) in shares {
        for p in ps {
            if let Some(o) = seen.insert(*p, *m) {
                return Err(format!("partition {p} is assigned to members {o} and {m}"));
            }
            if *p == 0 || *p > partitions {
                return Err(format!("member {m} holds partition {p} but the topic has {partitions}"));
            }
        }
    }
    for p in 1..=partitions {
        if !seen.contains_key(&p) {
            return Err(format!("partition {p} of {partitions} is assigned to no member ({} members)", shares.len()));
        }
    }
    let min = shares.values().map(|v| v.len()).min().unwrap();
    let max = shares.values().map(|v| v.len()).max().unwrap();
    if max - min > 1 {
        return Err(format!("shares differ by more than one: {:?}", shares));
    }
    Ok(())
}

impl Engine for GroupComp {
    type Case = GCase;
    fn strategy(&self, _p: &Params) -> BoxedStrategy<GCase> {
        let op = prop_oneof![
            5 => (0u8..12).prop_map(GOp::Add),
            3 => (0u8..12).prop_map(GOp::Del),
            2 => (0u8..17).prop_map(GOp::Reassign),
            6 => (0u8..12, 1u8..40).prop_map(|(m, n)| GOp::Calc(m, n)),
        ];
        (0u8..17, proptest::collection::vec(op, 1..40)).prop_map(|(partitions, ops)| GCase { partitions, ops }).boxed()
    }
    fn run(&self, case: &GCase, _p: &Params) -> Outcome {
        let mut out = Outcome::default();
        let rt = tokio::runtime::Builder::new_current_thread().build().unwrap();
        let r: Result<(), Failure> = rt.block_on(async {
            let mut g = ConsumerGroup::new(1, 1, "g", case.partitions as u32);
            let mut members: BTreeSet<u32> = BTreeSet::new();
            let mut parts = case.partitions as u32;
            for (i, op) in case.ops.iter().enumerate() {
                out.steps += 1;
                match op {
                    GOp::Add(m) => {
                        g.add_member(*m as u32 + 1).await;
                        members.insert(*m as u32 + 1);
                    }
                    GOp::Del(m) => {
                        g.delete_member(*m as u32 + 1).await;
                        members.remove(&(*m as u32 + 1));
                    }
                    GOp::Reassign(n) => {
                        g.reassign_partitions(*n as u32).await;
                        parts = *n as u32;
                    }
                    GOp::Calc(m, n) => {
                        let id = *m as u32 + 1;
                        if !members.contains(&id) {
                            continue;
                        }
                        // the member's share as the group reports it
                        let mut share: Vec<u32> = vec![];
                        for mem in g.get_members() {
                            let mm = mem.read().await;
                            if mm.id == id {
                                share = mm.get_partitions();
                            }
                        }
                        share.sort();
                        let mut visited = vec![];
                        for _ in 0..*n {
                            match g.calculate_partition_id(id).await {
                                Ok(Some(p)) => visited.push(p),
                                Ok(None) => {
                                    if !share.is_empty() {
                                        return Err(Failure::new("C08", "rotation-none-with-share", format!("step {i}: member {id} holds {:?} but calculate_partition_id returned none", share)));
                                    }
                                }
                                Err(e) => return Err(Failure::new("C08", "rotation-error", format!("step {i}: {e}"))),
                            }
                        }
                        for p in &visited {
                            if !share.contains(p) {
                                return Err(Failure::new("C08", "served-outside-share", format!("step {i}: member {id} with share {:?} was directed to partition {p}", share)));
                            }
                        }
                        let k = share.len();
                        if k > 0 {
                            for w in visited.windows(k) {
                                let s: BTreeSet<u32> = w.iter().copied().collect();
                                if s.len() != k {
                                    return Err(Failure::new("C08", "rotation-skips-partition", format!("step {i}: member {id} share {:?}: {k} consecutive polls visited {:?}", share, w)));
                                }
                            }
                            if k >= 2 && visited.len() >= k {
                                out.label("rotation-over-multi-partition-share");
                            }
                        }
                    }
                }
                let mut shares: BTreeMap<u32, Vec<u32>> = BTreeMap::new();
                for mem in g.get_members() {
                    let mm = mem.read().await;
                    shares.insert(mm.id, mm.get_partitions());
                }
                let ids: BTreeSet<u32> = shares.keys().copied().collect();
                if ids != members {
                    return Err(Failure::new("C08", "members-differ", format!("step {i} ({:?}): group lists members {:?}, expected {:?}", op, ids, members)));
                }
                if let Err(d) = assignment_valid(&shares, parts) {
                    return Err(Failure::new("C08", "assignment-invalid", format!("step {i} ({:?}): {d}", op)));
                }
                if members.len() as u32 > parts && parts > 0 {
                    out.label("more-members-than-partitions");
                    out.nontrivial = true;
                }
                if members.len() >= 2 && parts >= 2 {
                    out.nontrivial = true;
                }
            }
            Ok(())
        });
        if let Err(f) = r {
            out.failure = Some(f);
        }
        out
    }
    fn rule(&self, _p: &Params) -> String {
        "case = generated history of add member / delete member / reassign(partition count 0..16) / n x calculate_partition_id over up to 12 members on the real ConsumerGroup; validity predicate after every step (union of shares = all partitions, pairwise disjoint, sizes differ <= 1, rotation visits exactly the member's share in turn); non-trivial = >=2 members and >=2 partitions at some step, or more members than partitions".into()
    }
}

// =====================================================================================
// C08: consumer groups, system tier
// =====================================================================================

pub struct Groups;

#[derive(Debug, Clone, PartialEq, Serialize, Deserialize)]
pub enum SOp {
    Join(u8),
    Leave(u8),
    Disconnect(u8),
    AddParts(u8),
    DelParts(u8),
    Send { part: u16, n: u8 },
    Poll { client: u8, count: u8 },
}

#[derive(Debug, Clone, PartialEq, Serialize, Deserialize)]
pub struct SCase {
    pub cfg: NodeCfg,
    pub partitions: u32,
    pub ops: Vec<SOp>,
    /// numeric id of the topic under test inside stream 1 (2 = a one-partition topic with id 1 is created first,
    /// so that stream id != topic id); absent in older files = 1
    #[serde(default)]
    pub topic_id: u8,
}

struct SInterp<'a> {
    case: &'a SCase,
    dir: ScratchDir,
    node: Option<Node>,
    admin: Option<TcpClient>,
    clients: BTreeMap<u8, TcpClient>,
    /// members of group 1 and of group 2 (same topic)
    members: [BTreeSet<u8>; 2],
    /// members of the NAMESAKE group in a second stream (same topic id, same group id 1): joins and
    /// disconnects only - its table must list exactly these connections
    members_other_stream: BTreeSet<u8>,
    /// payload count per partition
    sent: Vec<u64>,
    /// next offset each group must be handed per partition
    handed: [Vec<u64>; 2],
    out: Outcome,
    step: usize,
    serial: u64,
    /// per (group, client): partitions visited since the last membership / partition change
    visits: BTreeMap<(usize, u8), Vec<u32>>,
    changed_between_polls: bool,
}

impl<'a> SInterp<'a> {
    fn fail(&self, clause: &str, detail: String) -> Failure {
        Failure::new("C08", clause, format!("step {} ({:?}): {}", self.step, self.case.ops.get(self.step), detail))
    }
    fn node(&self) -> &Node {
        self.node.as_ref().unwrap()
    }
    fn panics(&mut self, what: &str) -> Check {
        let ps: Vec<_> = take_panics().into_iter().filter(is_repo_panic).collect();
        if let Some(p) = ps.first() {
            return Err(self.fail("server-panic", format!("{what}: server panicked: {} at {}", p.message, p.location)).tag(format!("panic@{}", p.location.rsplit('/').next().unwrap_or(""))));
        }
        Ok(())
    }
    fn gid(g: usize) -> Identifier {
        Identifier::numeric(g as u32 + 1).unwrap()
    }
    /// the group addressed by name instead of by id (bit 5 of the selector byte)
    fn gref(sel: u8, g: usize) -> Identifier {
        if sel & 32 != 0 {
            Identifier::named(["g", "h"][g]).unwrap()
        } else {
            Self::gid(g)
        }
    }
    fn t(&self) -> Identifier {
        Identifier::numeric(if self.case.topic_id == 2 { 2 } else { 1 }).unwrap()
    }
    /// selector byte -> (group index, client): bit 4 selects the second group
    fn split(c: u8) -> (usize, u8) {
        (((c >> 4) & 1) as usize, c & 15)
    }
    fn client(&mut self, c: u8) -> Result<(), Failure> {
        if !self.clients.contains_key(&c) {
            match self.node().tcp_root() {
                Ok(cl) => {
                    self.clients.insert(c, cl);
                }
                Err(e) => return Err(self.fail("cannot-connect", format!("{e}"))),
            }
        }
        Ok(())
    }

    /// get_consumer_group must satisfy the validity predicate; returns member id -> share
    fn group_view(&mut self, g: usize, why: &str) -> Result<BTreeMap<u32, Vec<u32>>, Failure> {
        let why = format!("{why}, group {}", g + 1);
        let why = why.as_str();
        let n = self.node();
        let r = n.block_on(async { self.admin.as_ref().unwrap().get_consumer_group(&sid(), &self.t(), &Self::gid(g)).await });
        let gi = g;
        let g = match r {
            Ok(Some(g)) => g,
            other => return Err(self.fail("group-vanished", format!("{why}: get_consumer_group: {:?}", other.map(|o| o.is_some())))),
        };
        let parts = self.sent.len() as u32;
        if g.partitions_count != parts {
            return Err(self.fail("group-partitions-count", format!("{why}: group reports {} partitions, topic has {parts}", g.partitions_count)));
        }
        if g.members_count as usize != self.members[gi].len() || g.members.len() != self.members[gi].len() {
            return Err(self.fail("group-members-count", format!("{why}: group reports {} members ({} listed), {} joined: {:?}", g.members_count, g.members.len(), self.members[gi].len(), self.members[gi])));
        }
        let mut shares = BTreeMap::new();
        for m in &g.members {
            if m.partitions_count as usize != m.partitions.len() {
                return Err(self.fail("member-partitions-count", format!("{why}: member {} reports {} partitions, lists {:?}", m.id, m.partitions_count, m.partitions)));
            }
            shares.insert(m.id, m.partitions.clone());
        }
        if let Err(d) = assignment_valid(&shares, parts) {
            return Err(self.fail("assignment-invalid", format!("{why}: {d}")));
        }
        Ok(shares)
    }

    fn reset_visits(&mut self) {
        self.visits.clear();
        self.changed_between_polls = true;
    }

    fn poll(&mut self, sel: u8, count: u32) -> Check {
        let (g, c) = Self::split(sel);
        self.client(c)?;
        if sel & 32 != 0 {
            self.out.label("group-polled-by-name");
        }
        let n = self.node.as_ref().unwrap();
        let cl = self.clients.get(&c).unwrap();
        let me = n.block_on(async { iggy::client::SystemClient::get_me(cl).await }).map(|m| m.client_id).unwrap_or(0);
        let shares = self.group_view(g, "before poll")?;
        let n = self.node.as_ref().unwrap();
        let cl = self.clients.get(&c).unwrap();
        let r = n.block_on(async { cl.poll_messages(&sid(), &self.t(), None, &Consumer::group(Self::gref(sel, g)), &PollingStrategy::next(), count, true).await });
        self.panics("group poll")?;
        let is_member = self.members[g].contains(&c);
        let pm = match r {
            Ok(pm) => pm,
            Err(e) => {
                if !is_member {
                    return Ok(()); // a non-member polling without a partition id is refused: fine
                }
                return Err(self.fail("member-poll-failed", format!("client {c} (member) poll failed: {e}")));
            }
        };
        if !is_member {
            if !pm.messages.is_empty() {
                return Err(self.fail("non-member-served", format!("client {c} is not a member but was handed {} messages of partition {}", pm.messages.len(), pm.partition_id)));
            }
            return Ok(());
        }
        let share = shares.get(&me).cloned().unwrap_or_default();
        if share.is_empty() {
            if !pm.messages.is_empty() {
                return Err(self.fail("served-outside-share", format!("member {me} has no partitions but was handed messages of partition {}", pm.partition_id)));
            }
            self.out.label("member-without-partitions-polls");
            return Ok(());
        }
        if !share.contains(&pm.partition_id) {
            return Err(self.fail("served-outside-share", format!("member {me} (client {c}) with share {:?} was served from partition {}", share, pm.partition_id)));
        }
        // visiting each of its partitions in turn
        let v = self.visits.entry((g, c)).or_default();
        v.push(pm.partition_id);
        let k = share.len();
        if v.len() >= k {
            let w: BTreeSet<u32> = v[v.len() - k..].iter().copied().collect();
            if w.len() != k {
                let last: Vec<u32> = v[v.len() - k..].to_vec();
                return Err(self.fail("rotation-skips-partition", format!("member {me} share {:?}: its last {k} polls visited {:?}", share, last)));
            }
        }
        // offsets handed to the group: in order, none twice
        let idx = (pm.partition_id - 1) as usize;
        let want_from = self.handed[g][idx];
        let avail = self.sent[idx];
        let want: Vec<u64> = (want_from..(want_from + count as u64).min(avail)).collect();
        let got: Vec<u64> = pm.messages.iter().map(|m| m.offset).collect();
        if got != want {
            return Err(self.fail("group-handed-wrong-offsets", format!(
                "member {me} polling partition {} (next, auto-commit, count {count}) was handed offsets {:?}; the group had been handed everything below {want_from}, {} are stored: expected {:?}",
                pm.partition_id, got, avail, want)));
        }
        self.handed[g][idx] += got.len() as u64;
        if self.changed_between_polls && !got.is_empty() {
            self.out.label("poll-after-membership-change");
            self.out.nontrivial = true;
        }
        Ok(())
    }

    fn run(&mut self) -> Check {
        let _ = take_panics();
        match Node::start(&self.case.cfg, &self.dir.path) {
            Ok(n) => self.node = Some(n),
            Err(e) => return Err(self.fail("start-failed", format!("{e:?}"))),
        }
        match self.node().tcp_root() {
            Ok(c) => self.admin = Some(c),
            Err(e) => return Err(self.fail("cannot-connect", format!("{e}"))),
        }
        let parts = self.case.partitions;
        let n = self.node();
        let r = n.block_on(async {
            let a = self.admin.as_ref().unwrap();
            a.create_stream("s", Some(SID)).await?;
            let topic_id = if self.case.topic_id == 2 { 2 } else { 1 };
            if topic_id == 2 {
                a.create_topic(&sid(), "pad", 1, CompressionAlgorithm::None, None, Some(1), IggyExpiry::NeverExpire, MaxTopicSize::Unlimited).await?;
            }
            a.create_topic(&sid(), "t", parts, CompressionAlgorithm::None, None, Some(topic_id), IggyExpiry::NeverExpire, MaxTopicSize::Unlimited).await?;
            a.create_consumer_group(&sid(), &self.t(), "g", Some(1)).await?;
            a.create_consumer_group(&sid(), &self.t(), "h", Some(2)).await?;
            // a second stream whose topic and group carry the same numeric ids
            let s2 = Identifier::numeric(SID + 1).unwrap();
            a.create_stream("s-other", Some(SID + 1)).await?;
            if topic_id == 2 {
                a.create_topic(&s2, "pad", 1, CompressionAlgorithm::None, None, Some(1), IggyExpiry::NeverExpire, MaxTopicSize::Unlimited).await?;
            }
            a.create_topic(&s2, "t", 2, CompressionAlgorithm::None, None, Some(topic_id), IggyExpiry::NeverExpire, MaxTopicSize::Unlimited).await?;
            a.create_consumer_group(&s2, &self.t(), "g", Some(1)).await?;
            Ok::<(), IggyError>(())
        });
        if let Err(e) = r {
            return Err(self.fail("setup", format!("{e}")));
        }
        self.sent = vec![0; parts as usize];
        self.handed = [vec![0; parts as usize], vec![0; parts as usize]];
        if self.case.topic_id == 2 {
            self.out.label("topic-id-differs-from-stream-id");
        }
        let ops = self.case.ops.clone();
        for (i, op) in ops.iter().enumerate() {
            self.step = i;
            self.out.steps += 1;
            match op.clone() {
                SOp::Join(sel) if sel & 64 != 0 => {
                    let (_, c) = Self::split(sel);
                    self.client(c)?;
                    let n = self.node.as_ref().unwrap();
                    let cl = self.clients.get(&c).unwrap();
                    let s2 = Identifier::numeric(SID + 1).unwrap();
                    let r = n.block_on(async { cl.join_consumer_group(&s2, &self.t(), &Self::gid(0)).await });
                    self.panics("join (other stream)")?;
                    if let Err(e) = r {
                        return Err(self.fail("join-failed", format!("other stream: {e}")));
                    }
                    self.members_other_stream.insert(c);
                    if self.members[0].contains(&c) {
                        self.out.label("client-in-namesake-groups-of-two-streams");
                    }
                }
                SOp::Join(sel) => {
                    let (g, c) = Self::split(sel);
                    self.client(c)?;
                    let n = self.node.as_ref().unwrap();
                    let cl = self.clients.get(&c).unwrap();
                    let r = n.block_on(async { cl.join_consumer_group(&sid(), &self.t(), &Self::gref(sel, g)).await });
                    self.panics("join")?;
                    if let Err(e) = r {
                        return Err(self.fail("join-failed", format!("{e}")));
                    }
                    // a repeated join of a member re-creates it (rotation starts over): a membership event
                    self.members[g].insert(c);
                    if self.members[0].contains(&c) && self.members[1].contains(&c) {
                        self.out.label("client-in-both-groups");
                    }
                    self.reset_visits();
                }
                SOp::Leave(sel) => {
                    let (g, c) = Self::split(sel);
                    if !self.members[g].contains(&c) {
                        continue;
                    }
                    let n = self.node.as_ref().unwrap();
                    let cl = self.clients.get(&c).unwrap();
                    let r = n.block_on(async { cl.leave_consumer_group(&sid(), &self.t(), &Self::gref(sel, g)).await });
                    self.panics("leave")?;
                    if let Err(e) = r {
                        return Err(self.fail("leave-failed", format!("{e}")));
                    }
                    self.members[g].remove(&c);
                    self.reset_visits();
                }
                SOp::Disconnect(sel) => {
                    let (_, c) = Self::split(sel);
                    if let Some(cl) = self.clients.remove(&c) {
                        let n = self.node.as_ref().unwrap();
                        let _ = n.block_on(async { cl.shutdown().await });
                        drop(cl);
                        self.members_other_stream.remove(&c);
                        let was0 = self.members[0].remove(&c);
                        let was1 = self.members[1].remove(&c);
                        let was = was0 || was1;
                        if was0 && was1 {
                            self.out.label("member-of-both-groups-disconnected");
                            self.out.nontrivial = true;
                        }
                        // the server notices the closed connection in that connection's task
                        // (it first drops the client from its client table and then leaves the groups one by one:
                        // wait for the table AND for the groups' member lists, up to 20 s on a loaded machine;
                        // what is still wrong after that is judged by the regular check below)
                        let want = 1 + self.clients.len();
                        let deadline = std::time::Instant::now() + std::time::Duration::from_secs(10);
                        loop {
                            let cnt = n.block_on(async { iggy::client::SystemClient::get_clients(self.admin.as_ref().unwrap()).await }).map(|v| v.len()).unwrap_or(0);
                            let mut groups_ok = true;
                            for g in 0..2usize {
                                let mc = n
                                    .block_on(async { self.admin.as_ref().unwrap().get_consumer_group(&sid(), &self.t(), &Self::gid(g)).await })
                                    .ok()
                                    .flatten()
                                    .map(|d| d.members_count as usize);
                                if mc != Some(self.members[g].len()) {
                                    groups_ok = false;
                                }
                            }
                            {
                                let s2 = Identifier::numeric(SID + 1).unwrap();
                                let mc = n.block_on(async { self.admin.as_ref().unwrap().get_consumer_group(&s2, &self.t(), &Self::gid(0)).await }).ok().flatten().map(|d| d.members_count as usize);
                                if mc != Some(self.members_other_stream.len()) {
                                    groups_ok = false;
                                }
                            }
                            if (cnt <= want && groups_ok) || std::time::Instant::now() > deadline {
                                break;
                            }
                            n.settle(2);
                        }
                        if was {
                            self.out.label("member-disconnected");
                            self.reset_visits();
                        }
                    }
                }
                SOp::AddParts(k) => {
                    let k = k.max(1) as u32;
                    let n = self.node();
                    let r = n.block_on(async { self.admin.as_ref().unwrap().create_partitions(&sid(), &self.t(), k).await });
                    self.panics("create_partitions")?;
                    if let Err(e) = r {
                        return Err(self.fail("create-partitions-failed", format!("{e}")));
                    }
                    for _ in 0..k {
                        self.sent.push(0);
                        self.handed[0].push(0);
                        self.handed[1].push(0);
                    }
                    self.reset_visits();
                }
                SOp::DelParts(k) => {
                    let k = k.max(1) as usize;
                    if k >= self.sent.len() {
                        continue;
                    }
                    let n = self.node();
                    let r = n.block_on(async { self.admin.as_ref().unwrap().delete_partitions(&sid(), &self.t(), k as u32).await });
                    self.panics("delete_partitions")?;
                    if let Err(e) = r {
                        return Err(self.fail("delete-partitions-failed", format!("{e}")));
                    }
                    for _ in 0..k {
                        self.sent.pop();
                        self.handed[0].pop();
                        self.handed[1].pop();
                    }
                    self.reset_visits();
                }
                SOp::Send { part, n: k } => {
                    let pid = 1 + pick(part, self.sent.len()) as u32;
                    let mut ms = vec![];
                    for _ in 0..k.max(1) {
                        self.serial += 1;
                        ms.push(Message::new(None, Bytes::from(msgs::fill(self.serial, 16)), None));
                    }
                    let n = self.node();
                    let r = n.block_on(async { self.admin.as_ref().unwrap().send_messages(&sid(), &self.t(), &Partitioning::partition_id(pid), &mut ms).await });
                    if let Err(e) = r {
                        return Err(self.fail("send-failed", format!("{e}")));
                    }
                    self.sent[(pid - 1) as usize] += k.max(1) as u64;
                }
                SOp::Poll { client, count } => {
                    self.poll(client, count.max(1) as u32)?;
                    self.changed_between_polls = false;
                }
            }
            self.panics("after step")?;
            {
                let s2 = Identifier::numeric(SID + 1).unwrap();
                let n = self.node();
                let r = n.block_on(async { self.admin.as_ref().unwrap().get_consumer_group(&s2, &self.t(), &Self::gid(0)).await });
                match r {
                    Ok(Some(g)) => {
                        if g.members_count as usize != self.members_other_stream.len() || g.members.len() != self.members_other_stream.len() {
                            return Err(self.fail("group-members-count", format!(
                                "after step, the namesake group in the other stream reports {} members ({} listed), {} joined: {:?}", g.members_count, g.members.len(), self.members_other_stream.len(), self.members_other_stream)));
                        }
                        let shares: BTreeMap<u32, Vec<u32>> = g.members.iter().map(|m| (m.id, m.partitions.clone())).collect();
                        if let Err(d) = assignment_valid(&shares, 2) {
                            return Err(self.fail("assignment-invalid", format!("after step, other stream: {d}")));
                        }
                    }
                    other => return Err(self.fail("group-vanished", format!("other stream: {:?}", other.map(|o| o.is_some())))),
                }
            }
            for g in 0..2 {
                let shares = self.group_view(g, "after step")?;
                if shares.len() as u32 > self.sent.len() as u32 {
                    self.out.label("more-members-than-partitions");
                    self.out.nontrivial = true;
                }
            }
        }
        // drain: with >= 1 member every message must eventually be handed out, none twice (per group)
        self.step = ops.len();
        for g in 0..2usize {
            if self.members[g].is_empty() {
                continue;
            }
            let rounds = 2 * self.sent.len() + 2;
            let total_left: u64 = self.sent.iter().zip(self.handed[g].iter()).map(|(s, h)| s - h).sum();
            let members: Vec<u8> = self.members[g].iter().copied().collect();
            for _ in 0..(rounds as u64 + total_left / 50 + 1) * 2 {
                for c in &members {
                    self.poll(*c | ((g as u8) << 4), 100)?;
                }
            }
            for (i, (s, h)) in self.sent.iter().zip(self.handed[g].iter()).enumerate() {
                if s != h {
                    return Err(self.fail("group-never-handed-messages", format!("after the drain phase partition {} still has offsets {}..{} that no member of group {} was handed", i + 1, h, s, g + 1)));
                }
            }
            self.out.label("drained");
        }
        Ok(())
    }
}

/// second-group selector bit (bit 4 of the client byte): group 1 twice as often as group 2
/// "address the group by name" bit (bit 5 of the selector byte), a third of the time
fn by_name() -> BoxedStrategy<u8> {
    prop_oneof![2 => Just(0u8), 1 => Just(32u8)].boxed()
}

fn grp() -> BoxedStrategy<u8> {
    prop_oneof![2 => Just(0u8), 1 => Just(16u8)].boxed()
}

impl Engine for Groups {
    type Case = SCase;
    fn strategy(&self, p: &Params) -> BoxedStrategy<SCase> {
        let max_ops = if p.tier == Tier::Thorough { 50 } else { 30 };
        let op = prop_oneof![
            6 => (0u8..5, grp(), by_name()).prop_map(|(c, g, n)| SOp::Join(c | g | n)),
            2 => (0u8..5).prop_map(|c| SOp::Join(c | 64)),
            2 => (0u8..5, grp(), by_name()).prop_map(|(c, g, n)| SOp::Leave(c | g | n)),
            2 => (0u8..5).prop_map(SOp::Disconnect),
            2 => (1u8..4).prop_map(SOp::AddParts),
            2 => (1u8..4).prop_map(SOp::DelParts),
            8 => (any::<u16>(), 1u8..8).prop_map(|(part, n)| SOp::Send { part, n }),
            12 => (0u8..5, grp(), by_name(), 1u8..6).prop_map(|(client, g, n, count)| SOp::Poll { client: client | g | n, count }),
        ];
        (prop_oneof![Just(1u32), Just(1000)], 1u32..=5, proptest::collection::vec(op, 1..=max_ops), prop_oneof![Just(1u8), Just(2u8)])
            .prop_map(|(thr, partitions, ops, topic_id)| SCase { cfg: NodeCfg { save_threshold: thr, ..NodeCfg::default() }, partitions, ops, topic_id })
            .boxed()
    }
    fn run(&self, case: &SCase, _p: &Params) -> Outcome {
        let mut it = SInterp {
            case,
            dir: ScratchDir::new("grp"),
            node: None,
            admin: None,
            clients: BTreeMap::new(),
            members: [BTreeSet::new(), BTreeSet::new()],
            members_other_stream: BTreeSet::new(),
            sent: vec![],
            handed: [vec![], vec![]],
            out: Outcome::default(),
            step: 0,
            serial: 0,
            visits: BTreeMap::new(),
            changed_between_polls: false,
        };
        let r = it.run();
        let mut out = std::mem::take(&mut it.out);
        if let Some(n) = it.node.as_ref() {
            for (_, c) in std::mem::take(&mut it.clients) {
                let _ = n.block_on(async { c.shutdown().await });
            }
            if let Some(c) = it.admin.take() {
                let _ = n.block_on(async { c.shutdown().await });
            }
        }
        if let Some(n) = it.node.take() {
            n.kill();
        }
        let _ = take_panics();
        if let Err(f) = r {
            out.failure = Some(f);
        }
        out
    }
    fn rule(&self, _p: &Params) -> String {
        "case = generated history of join / leave / disconnect of up to 5 client connections in TWO consumer groups of the same topic (a connection may be a member of both, and of the namesake group - same topic id, same group id - in a second stream), create / delete partitions (1..8), sends, and poll(next, auto-commit, no partition id) by arbitrary clients in arbitrary order against the real server over TCP; after every step get_consumer_group of BOTH groups must list exactly the joined connections and satisfy the validity predicate (every partition assigned to exactly one member, shares differ by <= 1); every poll must be served from the polling member's share, rotate through it, and hand out exactly the next offsets of that partition (none twice, none skipped); a final drain must hand out everything; non-trivial = more members than partitions, or a non-empty poll after a membership / partition-count change, or the disconnect of a member of both groups".into()
    }
}
