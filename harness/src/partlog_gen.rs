//! Case types and generators of the `partlog` engine (C01 C02 C03 C14 C15 C16 C17 C18 C19).

use crate::msgs::{msg_spec, MsgSpec};
use crate::node::NodeCfg;
use crate::runner::{Params, Tier};
use proptest::prelude::*;
use serde::{Deserialize, Serialize};

#[derive(Debug, Clone, PartialEq, Serialize, Deserialize)]
pub enum ExpirySel {
    ServerDefault,
    Never,
    Us(u64),
}

#[derive(Debug, Clone, PartialEq, Serialize, Deserialize)]
pub enum SizeSel {
    ServerDefault,
    Unlimited,
    /// multiple of the configured segment size (>= 1 is valid)
    Segs(u8),
    /// raw bytes (used for "smaller than one segment", which must be rejected)
    Bytes(u64),
}

#[derive(Debug, Clone, PartialEq, Serialize, Deserialize)]
pub enum Target {
    Part(u16),
    /// 0: partition id 0, 1: count+1, 2: u32::MAX
    BadPart(u8),
    /// key pool index, key length selector
    Key(u8),
    Balanced,
}

#[derive(Debug, Clone, PartialEq, Serialize, Deserialize)]
pub enum OffSel {
    /// fraction of [0, next_offset]
    Frac(u16),
    /// boundary kind (0 zero,1 first retained,2 current,3 k-th segment start,4 first unsaved,5 beyond) and delta
    Edge(u8, i8),
}

#[derive(Debug, Clone, PartialEq, Serialize, Deserialize)]
pub enum PollSel {
    Offset(OffSel),
    /// timestamp of the message at fraction f, plus delta (-1,0,+1), or clock edges
    Timestamp(u16, i8),
    First,
    Last,
    Next,
}

#[derive(Debug, Clone, PartialEq, Serialize, Deserialize)]
pub enum POp {
    Send { target: Target, msgs: Vec<MsgSpec> },
    Poll { part: u16, sel: PollSel, count: u32, consumer: u8, auto_commit: bool },
    Flush { part: u16, fsync: bool },
    BgSave,
    Restart { drop_index: bool },
    Purge { stream_level: bool },
    Advance { us: u64 },
    Maintain,
    UpdateTopic { expiry: ExpirySel, max_size: SizeSel },
    AddPartitions(u8),
    DelPartitions(u8),
    /// delete ALL partitions of the topic and create this many (1..=3) new ones
    ReplaceParts(u8),
    /// restart with another encryption setting (C19): 0 off, 1 key A, 2 key B
    RestartKey(u8),
}

#[derive(Debug, Clone, PartialEq, Serialize, Deserialize)]
pub struct PCase {
    pub cfg: NodeCfg,
    pub partitions: u32,
    pub expiry: ExpirySel,
    pub max_size: SizeSel,
    pub ops: Vec<POp>,
    /// (schedule point, delay ms) pairs armed for the whole case; only hand-written
    /// regression files use it (the generator leaves it empty)
    #[serde(default)]
    pub chaos: Vec<(String, u64)>,
    /// a sibling topic t2 in the same stream (unlimited, never expiring) filled with this many segments'
    /// worth of data before the ops start: whatever it holds must not influence t1 (0 = no sibling)
    #[serde(default)]
    pub sibling_segs: u8,
    /// topics WITHOUT partitions beside the topic under test (two in its stream, one in each of four other
    /// streams): they hold nothing, so nothing about the topic under test may depend on them
    #[serde(default)]
    pub empty_siblings: bool,
}

/// generator profile per focus property
#[derive(Debug, Clone)]
pub struct Profile {
    pub w_send: u32,
    pub w_poll: u32,
    pub w_flush: u32,
    pub w_bgsave: u32,
    pub w_restart: u32,
    pub w_purge: u32,
    pub w_advance: u32,
    pub w_maintain: u32,
    pub w_update: u32,
    pub w_parts: u32,
    pub w_restart_key: u32,
    pub max_ops: usize,
    pub max_batch: usize,
    pub max_parts: u32,
    pub id_pool: u8,
    pub dedup: Option<bool>,
    pub encryption: Option<bool>,
    pub expiry: bool,
    pub size_limit: bool,
    pub key_heavy: bool,
    pub bad_targets: bool,
    pub big_payloads: bool,
}

pub fn profile(p: &Params) -> Profile {
    let thorough = p.tier == Tier::Thorough;
    let mut pr = Profile {
        w_send: 40,
        w_poll: 20,
        w_flush: 5,
        w_bgsave: 5,
        w_restart: 6,
        w_purge: 2,
        w_advance: 3,
        w_maintain: 0,
        w_update: 0,
        w_parts: 0,
        w_restart_key: 0,
        max_ops: if thorough { 60 } else { 36 },
        max_batch: if thorough { 60 } else { 24 },
        max_parts: 3,
        id_pool: 0,
        dedup: Some(false),
        encryption: Some(false),
        expiry: false,
        size_limit: false,
        key_heavy: false,
        bad_targets: true,
        big_payloads: thorough,
    };
    match p.property.as_str() {
        "C01" => {
            pr.dedup = None;
            pr.id_pool = 6;
            pr.expiry = true;
            pr.w_maintain = 4;
            pr.w_advance = 5;
            pr.w_poll = 8;
        }
        "C02" => {
            pr.w_poll = 45;
            pr.w_restart = 5;
            // "precisely the RETAINED messages": polls after retention passes too (added after seed C02r2-B)
            pr.expiry = true;
            pr.w_maintain = 3;
            pr.w_advance = 4;
        }
        "C03" => {
            pr.w_restart = 14;
            pr.expiry = true;
            pr.w_maintain = 3;
            pr.w_advance = 4;
            pr.dedup = None;
            pr.id_pool = 6;
        }
        "C14" => {
            pr.expiry = true;
            pr.w_maintain = 12;
            pr.w_advance = 12;
            pr.w_update = 4;
            pr.w_poll = 12;
            pr.w_purge = 1;
        }
        "C15" => {
            pr.size_limit = true;
            pr.w_maintain = 8;
            pr.w_update = 6;
            pr.w_send = 55;
            pr.w_poll = 8;
            pr.w_restart = 3;
        }
        "C16" => {
            pr.w_purge = 6;
            pr.w_parts = 6;
            pr.expiry = true;
            pr.w_maintain = 5;
            pr.w_advance = 5;
            pr.dedup = None;
            pr.id_pool = 5;
            pr.w_poll = 6;
            // with and without server-side encryption: reported sizes must be those of what is stored (the ciphertext)
            pr.encryption = None;
        }
        "C17" => {
            pr.max_parts = 12;
            pr.key_heavy = true;
            pr.w_parts = 8;
            pr.w_poll = 4;
            pr.w_send = 60;
        }
        "C18" => {
            pr.dedup = Some(true);
            pr.id_pool = 8;
            pr.w_restart = 10;
            pr.w_flush = 8;
            pr.w_poll = 6;
        }
        "C13" => {
            // flavour "http": the same send / poll traffic alternately over the binary protocol and HTTP/JSON
            pr.w_poll = 35;
            pr.w_restart = 3;
            pr.key_heavy = true;
        }
        "C19" => {
            // partitions added / deleted / replaced too: "a restart restores the full catalogue and data" (after seed C19-E)
            pr.w_parts = 3;
            pr.encryption = Some(true);
            pr.w_restart = 6;
            pr.w_restart_key = 5;
            pr.w_poll = 15;
        }
        _ => {}
    }
    if p.flavour == "dedup-off" {
        pr.dedup = Some(false);
    }
    if p.flavour == "enc-mixed" {
        pr.encryption = None;
    }
    pr
}

fn cfg_strategy(pr: &Profile) -> BoxedStrategy<NodeCfg> {
    let dedup = match pr.dedup {
        Some(b) => Just(b).boxed(),
        None => any::<bool>().boxed(),
    };
    let enc = match pr.encryption {
        Some(true) => prop_oneof![12 => Just(1u8), 1 => Just(3u8)].boxed(),
        Some(false) => Just(0u8).boxed(),
        None => prop_oneof![Just(0u8), Just(1u8)].boxed(),
    };
    let size_limit = pr.size_limit;
    let expiry = pr.expiry;
    (
        prop_oneof![Just(1u32), Just(2), Just(3), Just(5), Just(10), Just(25), Just(1000)],
        prop_oneof![
            3 => Just(250u64), 3 => Just(600), 3 => Just(2_000), 2 => Just(20_000), 1 => Just(1_000_000), 1 => Just(1_000_000_000)
        ],
        any::<bool>(),
        prop_oneof![4 => Just(false), 1 => Just(true)],
        prop_oneof![3 => Just(false), 1 => Just(true)],
        dedup,
        enc,
        (any::<bool>(), 0u8..6, any::<bool>(), 0u8..6, any::<bool>()),
    )
        .prop_map(move |(thr, seg, ci, fsync, no_wait, dedup, enc, (has_exp, exp_sel, has_max, max_sel, del_old))| {
            let default_expiry_us = if expiry && has_exp {
                Some([1_000u64, 50_000, 1_000_000, 60_000_000, 3_600_000_000, 10][exp_sel as usize % 6])
            } else {
                None
            };
            let default_max_topic_size = if size_limit && has_max {
                Some(seg * (1 + max_sel as u64))
            } else {
                None
            };
            NodeCfg {
                save_threshold: thr,
                segment_size: seg,
                cache_indexes: ci,
                fsync,
                no_wait,
                dedup,
                encryption: enc,
                default_expiry_us,
                default_max_topic_size,
                delete_oldest: size_limit && del_old,
                validate_checksum: false,
                http: false,
                jwt_never_expire: false,
                rt_workers: 2,
                dedup_ids_never_expire: dedup && (thr + seg as u32) % 3 == 0,
            }
        })
        .boxed()
}

fn expiry_sel(enabled: bool) -> BoxedStrategy<ExpirySel> {
    if !enabled {
        return prop_oneof![Just(ExpirySel::Never), Just(ExpirySel::ServerDefault)].boxed();
    }
    prop_oneof![
        2 => Just(ExpirySel::ServerDefault),
        2 => Just(ExpirySel::Never),
        6 => prop_oneof![Just(1_000u64), Just(1_001), Just(20_000), Just(1_000_000), Just(30_000_000), Just(3_600_000_000)].prop_map(ExpirySel::Us),
    ]
    .boxed()
}

fn size_sel(enabled: bool) -> BoxedStrategy<SizeSel> {
    if !enabled {
        return prop_oneof![Just(SizeSel::Unlimited), Just(SizeSel::ServerDefault)].boxed();
    }
    prop_oneof![
        2 => Just(SizeSel::ServerDefault),
        1 => Just(SizeSel::Unlimited),
        6 => (1u8..=6).prop_map(SizeSel::Segs),
        1 => (1u64..200).prop_map(SizeSel::Bytes),
    ]
    .boxed()
}

fn op_strategy(pr: &Profile) -> BoxedStrategy<POp> {
    let target = {
        let mut v: Vec<(u32, BoxedStrategy<Target>)> = vec![
            (if pr.key_heavy { 3 } else { 8 }, any::<u16>().prop_map(Target::Part).boxed()),
            (if pr.key_heavy { 5 } else { 1 }, (0u8..12).prop_map(Target::Key).boxed()),
            (if pr.key_heavy { 5 } else { 1 }, Just(Target::Balanced).boxed()),
        ];
        if pr.bad_targets {
            v.push((1, (0u8..3).prop_map(Target::BadPart).boxed()));
        }
        proptest::strategy::Union::new_weighted(v).boxed()
    };
    let msgs = prop_oneof![
        6 => proptest::collection::vec(msg_spec(pr.id_pool, pr.big_payloads), 1..=4),
        3 => proptest::collection::vec(msg_spec(pr.id_pool, pr.big_payloads), 1..=pr.max_batch),
        1 => proptest::collection::vec(msg_spec(pr.id_pool, pr.big_payloads), 0..=1),
    ];
    let send = (target, msgs).prop_map(|(target, msgs)| POp::Send { target, msgs });
    let offsel = prop_oneof![
        5 => any::<u16>().prop_map(OffSel::Frac),
        5 => (0u8..6, -1i8..=1).prop_map(|(k, d)| OffSel::Edge(k, d)),
    ];
    let pollsel = prop_oneof![
        10 => offsel.prop_map(PollSel::Offset),
        4 => (any::<u16>(), -1i8..=1).prop_map(|(f, d)| PollSel::Timestamp(f, d)),
        2 => Just(PollSel::First),
        3 => Just(PollSel::Last),
        3 => Just(PollSel::Next),
    ];
    let count = prop_oneof![
        Just(1u32), Just(2), Just(3), Just(7), Just(50), Just(1000), 1u32..40
    ];
    let poll = (any::<u16>(), pollsel, count, 0u8..3, any::<bool>()).prop_map(|(part, sel, count, consumer, auto_commit)| POp::Poll {
        part,
        sel,
        count,
        consumer,
        auto_commit,
    });
    let v: Vec<(u32, BoxedStrategy<POp>)> = vec![
        (pr.w_send, send.boxed()),
        (pr.w_poll, poll.boxed()),
        (pr.w_flush, (any::<u16>(), any::<bool>()).prop_map(|(part, fsync)| POp::Flush { part, fsync }).boxed()),
        (pr.w_bgsave, Just(POp::BgSave).boxed()),
        (pr.w_restart, prop_oneof![6 => Just(false), 1 => Just(true)].prop_map(|drop_index| POp::Restart { drop_index }).boxed()),
        (pr.w_purge, any::<bool>().prop_map(|stream_level| POp::Purge { stream_level }).boxed()),
        (
            pr.w_advance,
            prop_oneof![Just(1u64), Just(999), Just(1_000), Just(1_001), Just(25_000), Just(1_000_000), Just(61_000_000), Just(3_600_000_001)]
                .prop_map(|us| POp::Advance { us })
                .boxed(),
        ),
        (pr.w_maintain, Just(POp::Maintain).boxed()),
        (pr.w_update, (expiry_sel(pr.expiry), size_sel(pr.size_limit)).prop_map(|(expiry, max_size)| POp::UpdateTopic { expiry, max_size }).boxed()),
        (pr.w_parts, prop_oneof![4 => (1u8..4).prop_map(POp::AddPartitions), 4 => (1u8..4).prop_map(POp::DelPartitions), 1 => (1u8..=3).prop_map(POp::ReplaceParts)].boxed()),
        (pr.w_restart_key, (0u8..4).prop_map(POp::RestartKey).boxed()),
    ];
    let v: Vec<_> = v.into_iter().filter(|(w, _)| *w > 0).collect();
    proptest::strategy::Union::new_weighted(v).boxed()
}

pub fn case_strategy(p: &Params) -> BoxedStrategy<PCase> {
    let pr = profile(p);
    let max_ops = pr.max_ops;
    (
        cfg_strategy(&pr),
        1u32..=pr.max_parts,
        expiry_sel(pr.expiry),
        size_sel(pr.size_limit),
        proptest::collection::vec(op_strategy(&pr), 1..=max_ops),
        if matches!(p.property.as_str(), "C14" | "C15" | "C16") { prop_oneof![3 => Just(0u8), 2 => 1u8..=8].boxed() } else { Just(0u8).boxed() },
        // (empty sibling topics, tiny world)
        (
            if matches!(p.property.as_str(), "C01" | "C02" | "C03" | "C14" | "C17") { prop_oneof![3 => Just(false), 1 => Just(true)].boxed() } else { Just(false).boxed() },
            if matches!(p.property.as_str(), "C01" | "C03" | "C14" | "C16") && p.flavour.is_empty() { prop_oneof![5 => Just(false), 1 => Just(true)].boxed() } else { Just(false).boxed() },
        ),
    )
        .prop_map({
            let http = p.flavour == "http";
            let with_expiry = pr.expiry;
            move |(mut cfg, partitions, mut expiry, max_size, mut ops, sibling_segs, (empty_siblings, tiny_world))| {
                if tiny_world {
                    // a "tiny world": every message fills and closes a segment of its own, batches of one or two,
                    // everything saved at once, expiry one millisecond - the counts 0 / 1 / 2 of messages, segments
                    // and batches, where boundary mistakes live, occur in most steps instead of in a few
                    cfg.segment_size = 250;
                    cfg.save_threshold = 1;
                    if with_expiry {
                        expiry = ExpirySel::Us(1_000);
                    }
                    for op in ops.iter_mut() {
                        if let POp::Send { msgs, .. } = op {
                            msgs.truncate(2);
                            for m in msgs.iter_mut() {
                                m.len = 260 + m.len % 120;
                                m.hdr = 0;
                            }
                        }
                    }
                }
                if http {
                    // the HTTP listener refuses request bodies above its configured `max_request_size` (2 MB):
                    // a documented limit, so sends of this flavour stay far below it
                    for op in ops.iter_mut() {
                        if let POp::Send { msgs, .. } = op {
                            for m in msgs.iter_mut() {
                                m.len = m.len.min(20_000);
                            }
                        }
                    }
                }
                PCase { cfg, partitions, expiry, max_size, ops, chaos: vec![], sibling_segs, empty_siblings }
            }
        })
        .boxed()
}
