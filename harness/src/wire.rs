//! `wire` engine (C13 a, c): every request the SDK can build is decoded by the server's
//! request decoder (hook H6: ServerCommand::from_bytes) to the same request; journal and
//! on-disk encodings round-trip.

use crate::common::*;
use crate::msgs;
use crate::permgen::{self, perm_spec, PermSpec};
use crate::runner::{Engine, Params};
use bytes::{BufMut, Bytes, BytesMut};
use iggy::bytes_serializable::BytesSerializable;
use iggy::command::Command;
use iggy::compression::compression_algorithm::CompressionAlgorithm;
use iggy::consumer::Consumer;
use iggy::identifier::Identifier;
use iggy::messages::poll_messages::{PollMessages, PollingKind, PollingStrategy};
use iggy::messages::send_messages::{Message, Partitioning, SendMessages};
use iggy::models::user_status::UserStatus;
use iggy::utils::byte_size::IggyByteSize;
use iggy::utils::duration::IggyDuration;
use iggy::utils::expiry::IggyExpiry;
use iggy::utils::topic_size::MaxTopicSize;
use iggy::validatable::Validatable;
use proptest::prelude::*;
use proptest::strategy::BoxedStrategy;
use serde::{Deserialize, Serialize};
use server::state::command::EntryCommand;
use server::state::models::CreatePersonalAccessTokenWithHash;
use server::streaming::models::messages::RetainedMessage;
use server::verif::ServerCommand;

pub struct Wire;

#[derive(Debug, Clone, PartialEq, Serialize, Deserialize)]
pub enum IdSpec {
    Num(u32),
    /// name length 1..=255 and an alphabet selector
    Name(u8, u8),
}

#[derive(Debug, Clone, PartialEq, Serialize, Deserialize)]
pub struct Str {
    pub len: u16,
    pub alpha: u8,
}

#[derive(Debug, Clone, PartialEq, Serialize, Deserialize)]
pub enum WCmd {
    Ping,
    GetStats,
    GetMe,
    GetClient(u32),
    GetClients,
    GetUser(IdSpec),
    GetUsers,
    CreateUser { name: Str, pwd: Str, active: bool, perms: Option<PermSpec> },
    DeleteUser(IdSpec),
    UpdateUser { id: IdSpec, name: Option<Str>, active: Option<bool> },
    UpdatePermissions { id: IdSpec, perms: Option<PermSpec> },
    ChangePassword { id: IdSpec, cur: Str, new: Str },
    LoginUser { name: Str, pwd: Str, version: Option<Str>, context: Option<Str> },
    LogoutUser,
    GetPats,
    CreatePat { name: Str, expiry: u8 },
    DeletePat { name: Str },
    LoginPat { token: Str },
    SendMessages { stream: IdSpec, topic: IdSpec, part: u8, key: Str, pid: u32, msgs: Vec<msgs::MsgSpec> },
    PollMessages { consumer: IdSpec, group: bool, stream: IdSpec, topic: IdSpec, partition: Option<u32>, kind: u8, value: u64, count: u32, auto: bool },
    Flush { stream: IdSpec, topic: IdSpec, partition: u32, fsync: bool },
    GetOffset { consumer: IdSpec, group: bool, stream: IdSpec, topic: IdSpec, partition: Option<u32> },
    StoreOffset { consumer: IdSpec, group: bool, stream: IdSpec, topic: IdSpec, partition: Option<u32>, offset: u64 },
    DeleteOffset { consumer: IdSpec, group: bool, stream: IdSpec, topic: IdSpec, partition: Option<u32> },
    GetStream(IdSpec),
    GetStreams,
    CreateStream { id: Option<u32>, name: Str },
    DeleteStream(IdSpec),
    UpdateStream { id: IdSpec, name: Str },
    PurgeStream(IdSpec),
    GetTopic(IdSpec, IdSpec),
    GetTopics(IdSpec),
    CreateTopic { stream: IdSpec, id: Option<u32>, partitions: u32, expiry: u8, max: u8, repl: Option<u8>, name: Str },
    DeleteTopic(IdSpec, IdSpec),
    UpdateTopic { stream: IdSpec, topic: IdSpec, expiry: u8, max: u8, repl: Option<u8>, name: Str },
    PurgeTopic(IdSpec, IdSpec),
    CreatePartitions(IdSpec, IdSpec, u32),
    DeletePartitions(IdSpec, IdSpec, u32),
    GetGroup(IdSpec, IdSpec, IdSpec),
    GetGroups(IdSpec, IdSpec),
    CreateGroup { stream: IdSpec, topic: IdSpec, id: Option<u32>, name: Str },
    DeleteGroup(IdSpec, IdSpec, IdSpec),
    JoinGroup(IdSpec, IdSpec, IdSpec),
    LeaveGroup(IdSpec, IdSpec, IdSpec),
    /// journal / disk encodings
    RetainedMsg { spec: msgs::MsgSpec, offset: u64, ts: u64 },
    EntryPat { name: Str, expiry: u8, hash: Str },
}

#[derive(Debug, Clone, PartialEq, Serialize, Deserialize)]
pub struct WCase {
    pub cmds: Vec<WCmd>,
}

fn string_of(s: &Str) -> String {
    let alphabet: &[char] = match s.alpha % 4 {
        0 => &['a', 'b', 'Z', '0', '9', '-', '_', '.'],
        1 => &['x'],
        2 => &['a', 'é', 'ß', '7', ' ', '/'],
        _ => &['0', '1', '2'],
    };
    let mut out = String::new();
    let mut i = 0usize;
    while out.len() < s.len as usize {
        let c = alphabet[(i * 7 + s.len as usize) % alphabet.len()];
        if out.len() + c.len_utf8() > s.len as usize {
            out.push('q');
        } else {
            out.push(c);
        }
        i += 1;
    }
    out
}

fn ident(i: &IdSpec) -> Identifier {
    match i {
        IdSpec::Num(n) => Identifier::numeric((*n).max(1)).unwrap(),
        IdSpec::Name(len, alpha) => Identifier::named(&string_of(&Str { len: (*len).max(1) as u16, alpha: *alpha })).unwrap(),
    }
}

fn consumer(i: &IdSpec, group: bool) -> Consumer {
    if group {
        Consumer::group(ident(i))
    } else {
        Consumer::new(ident(i))
    }
}

fn expiry(e: u8) -> IggyExpiry {
    match e % 5 {
        0 => IggyExpiry::ServerDefault,
        1 => IggyExpiry::NeverExpire,
        2 => IggyExpiry::ExpireDuration(IggyDuration::from(1u64)),
        3 => IggyExpiry::ExpireDuration(IggyDuration::from(3_600_000_000u64)),
        _ => IggyExpiry::ExpireDuration(IggyDuration::from(u64::MAX - 1)),
    }
}

fn max_size(m: u8) -> MaxTopicSize {
    match m % 4 {
        0 => MaxTopicSize::ServerDefault,
        1 => MaxTopicSize::Unlimited,
        2 => MaxTopicSize::Custom(IggyByteSize::from(1u64)),
        _ => MaxTopicSize::Custom(IggyByteSize::from(u64::MAX - 1)),
    }
}

fn status(a: bool) -> UserStatus {
    if a {
        UserStatus::Active
    } else {
        UserStatus::Inactive
    }
}

/// normalisation the wire format imposes (documented in DESIGN 8.1): a permission
/// table that is `Some(empty)` cannot be told from `None`
fn norm_perms(p: &Option<PermSpec>) -> Option<PermSpec> {
    p.clone()
}

/// expected value after the trip: `Some(empty table)` arrives as `None`
fn norm_cmd(c: ServerCommand) -> ServerCommand {
    fn np(p: Option<iggy::models::permissions::Permissions>) -> Option<iggy::models::permissions::Permissions> {
        p.map(|mut p| {
            if let Some(ss) = &mut p.streams {
                for s in ss.values_mut() {
                    if matches!(&s.topics, Some(t) if t.is_empty()) {
                        s.topics = None;
                    }
                }
                if ss.is_empty() {
                    p.streams = None;
                }
            }
            p
        })
    }
    match c {
        ServerCommand::CreateUser(mut u) => {
            u.permissions = np(u.permissions.take());
            ServerCommand::CreateUser(u)
        }
        ServerCommand::UpdatePermissions(mut u) => {
            u.permissions = np(u.permissions.take());
            ServerCommand::UpdatePermissions(u)
        }
        other => other,
    }
}

fn id_s() -> BoxedStrategy<IdSpec> {
    prop_oneof![
        4 => prop_oneof![Just(1u32), Just(2), Just(255), Just(256), Just(65_536), Just(u32::MAX), 1u32..1000].prop_map(IdSpec::Num),
        5 => (prop_oneof![Just(1u8), Just(2), Just(3), Just(4), Just(5), Just(254), Just(255), 1u8..=255], 0u8..4).prop_map(|(l, a)| IdSpec::Name(l, a)),
    ]
    .boxed()
}

fn str_s(min: u16, max: u16) -> BoxedStrategy<Str> {
    (prop_oneof![Just(min), Just(min + 1), Just(max), Just(max.saturating_sub(1)), min..=max], 0u8..4).prop_map(|(len, alpha)| Str { len, alpha }).boxed()
}

fn opt<T: std::fmt::Debug + Clone + 'static>(s: BoxedStrategy<T>) -> BoxedStrategy<Option<T>> {
    prop_oneof![1 => Just(None), 2 => s.prop_map(Some)].boxed()
}

/// partition ids start at 1; `Some(0)` is the wire encoding of "none" by design
fn part_edge() -> BoxedStrategy<u32> {
    prop_oneof![Just(1u32), Just(2), Just(1000), Just(u32::MAX), 1u32..=u32::MAX].boxed()
}
fn u32_edge() -> BoxedStrategy<u32> {
    prop_oneof![Just(0u32), Just(1), Just(2), Just(1000), Just(u32::MAX), any::<u32>()].boxed()
}
fn u64_edge() -> BoxedStrategy<u64> {
    prop_oneof![Just(0u64), Just(1), Just(u32::MAX as u64 + 1), Just(u64::MAX), any::<u64>()].boxed()
}

fn cmd_strategy() -> BoxedStrategy<WCmd> {
    let perms = || opt(perm_spec(3, 3).boxed());
    let v: Vec<BoxedStrategy<WCmd>> = vec![
        prop_oneof![Just(WCmd::Ping), Just(WCmd::GetStats), Just(WCmd::GetMe), Just(WCmd::GetClients), Just(WCmd::GetUsers), Just(WCmd::LogoutUser), Just(WCmd::GetPats), Just(WCmd::GetStreams)].boxed(),
        u32_edge().prop_map(WCmd::GetClient).boxed(),
        id_s().prop_map(WCmd::GetUser).boxed(),
        (str_s(3, 50), str_s(3, 100), any::<bool>(), perms()).prop_map(|(name, pwd, active, perms)| WCmd::CreateUser { name, pwd, active, perms }).boxed(),
        id_s().prop_map(WCmd::DeleteUser).boxed(),
        (id_s(), opt(str_s(3, 50)), opt(any::<bool>().boxed())).prop_map(|(id, name, active)| WCmd::UpdateUser { id, name, active }).boxed(),
        (id_s(), perms()).prop_map(|(id, perms)| WCmd::UpdatePermissions { id, perms }).boxed(),
        (id_s(), str_s(3, 100), str_s(3, 100)).prop_map(|(id, cur, new)| WCmd::ChangePassword { id, cur, new }).boxed(),
        (str_s(3, 50), str_s(3, 100), opt(str_s(1, 40)), opt(str_s(1, 40))).prop_map(|(name, pwd, version, context)| WCmd::LoginUser { name, pwd, version, context }).boxed(),
        (str_s(3, 30), 0u8..5).prop_map(|(name, expiry)| WCmd::CreatePat { name, expiry }).boxed(),
        str_s(3, 30).prop_map(|name| WCmd::DeletePat { name }).boxed(),
        str_s(1, 255).prop_map(|token| WCmd::LoginPat { token }).boxed(),
        (id_s(), id_s(), 0u8..3, str_s(1, 255), u32_edge(), proptest::collection::vec(msgs::msg_spec(4, false), 1..5))
            .prop_map(|(stream, topic, part, key, pid, msgs)| WCmd::SendMessages { stream, topic, part, key, pid, msgs })
            .boxed(),
        (id_s(), any::<bool>(), id_s(), id_s(), opt(part_edge()), 0u8..5, u64_edge(), u32_edge(), any::<bool>())
            .prop_map(|(consumer, group, stream, topic, partition, kind, value, count, auto)| WCmd::PollMessages { consumer, group, stream, topic, partition, kind, value, count, auto })
            .boxed(),
        (id_s(), id_s(), u32_edge(), any::<bool>()).prop_map(|(stream, topic, partition, fsync)| WCmd::Flush { stream, topic, partition, fsync }).boxed(),
        (id_s(), any::<bool>(), id_s(), id_s(), opt(part_edge())).prop_map(|(consumer, group, stream, topic, partition)| WCmd::GetOffset { consumer, group, stream, topic, partition }).boxed(),
        (id_s(), any::<bool>(), id_s(), id_s(), opt(part_edge()), u64_edge())
            .prop_map(|(consumer, group, stream, topic, partition, offset)| WCmd::StoreOffset { consumer, group, stream, topic, partition, offset })
            .boxed(),
        (id_s(), any::<bool>(), id_s(), id_s(), opt(part_edge())).prop_map(|(consumer, group, stream, topic, partition)| WCmd::DeleteOffset { consumer, group, stream, topic, partition }).boxed(),
        id_s().prop_map(WCmd::GetStream).boxed(),
        (opt(u32_edge()), str_s(1, 255)).prop_map(|(id, name)| WCmd::CreateStream { id, name }).boxed(),
        id_s().prop_map(WCmd::DeleteStream).boxed(),
        (id_s(), str_s(1, 255)).prop_map(|(id, name)| WCmd::UpdateStream { id, name }).boxed(),
        id_s().prop_map(WCmd::PurgeStream).boxed(),
        (id_s(), id_s()).prop_map(|(a, b)| WCmd::GetTopic(a, b)).boxed(),
        id_s().prop_map(WCmd::GetTopics).boxed(),
        (id_s(), opt(u32_edge()), prop_oneof![Just(0u32), Just(1), Just(1000), 0u32..1000], 0u8..5, 0u8..4, opt((1u8..=255).boxed()), str_s(1, 255))
            .prop_map(|(stream, id, partitions, expiry, max, repl, name)| WCmd::CreateTopic { stream, id, partitions, expiry, max, repl, name })
            .boxed(),
        (id_s(), id_s()).prop_map(|(a, b)| WCmd::DeleteTopic(a, b)).boxed(),
        (id_s(), id_s(), 0u8..5, 0u8..4, opt((1u8..=255).boxed()), str_s(1, 255)).prop_map(|(stream, topic, expiry, max, repl, name)| WCmd::UpdateTopic { stream, topic, expiry, max, repl, name }).boxed(),
        (id_s(), id_s()).prop_map(|(a, b)| WCmd::PurgeTopic(a, b)).boxed(),
        (id_s(), id_s(), prop_oneof![Just(1u32), Just(1000), 1u32..1000]).prop_map(|(a, b, n)| WCmd::CreatePartitions(a, b, n)).boxed(),
        (id_s(), id_s(), prop_oneof![Just(1u32), Just(1000), 1u32..1000]).prop_map(|(a, b, n)| WCmd::DeletePartitions(a, b, n)).boxed(),
        (id_s(), id_s(), id_s()).prop_map(|(a, b, c)| WCmd::GetGroup(a, b, c)).boxed(),
        (id_s(), id_s()).prop_map(|(a, b)| WCmd::GetGroups(a, b)).boxed(),
        (id_s(), id_s(), opt(u32_edge()), str_s(1, 255)).prop_map(|(stream, topic, id, name)| WCmd::CreateGroup { stream, topic, id, name }).boxed(),
        (id_s(), id_s(), id_s()).prop_map(|(a, b, c)| WCmd::DeleteGroup(a, b, c)).boxed(),
        (id_s(), id_s(), id_s()).prop_map(|(a, b, c)| WCmd::JoinGroup(a, b, c)).boxed(),
        (id_s(), id_s(), id_s()).prop_map(|(a, b, c)| WCmd::LeaveGroup(a, b, c)).boxed(),
        (msgs::msg_spec(4, false), u64_edge(), u64_edge()).prop_map(|(spec, offset, ts)| WCmd::RetainedMsg { spec, offset, ts }).boxed(),
        (str_s(3, 30), 0u8..5, str_s(1, 100)).prop_map(|(name, expiry, hash)| WCmd::EntryPat { name, expiry, hash }).boxed(),
    ];
    proptest::strategy::Union::new(v).boxed()
}

fn frame<T: Command>(c: &T) -> Bytes {
    let payload = c.to_bytes();
    let mut b = BytesMut::with_capacity(4 + payload.len());
    b.put_u32_le(c.code());
    b.put_slice(&payload);
    b.freeze()
}

/// sdk value -> bytes -> server decoder -> must equal; validate() must agree
fn rt<T: Command + Validatable<iggy::error::IggyError> + std::fmt::Debug>(c: T, wrap: impl Fn(T) -> ServerCommand, name: &str, boundary: &mut bool) -> Result<(), (String, String)> {
    let bytes = frame(&c);
    let valid = c.validate().is_ok();
    if !valid {
        // the SDK would not send it (client-side validation): out of the property's domain
        return Ok(());
    }
    let _ = boundary;
    let decoded = std::panic::catch_unwind(std::panic::AssertUnwindSafe(|| ServerCommand::from_bytes(bytes.clone())));
    let expected = norm_cmd(wrap(c));
    match decoded {
        Err(_) => Err(("request-decoder-panics".into(), format!("{name}: the server's decoder panicked on the SDK's encoding of {:?} ({} bytes)", expected, bytes.len()))),
        Ok(Err(e)) => Err(("request-rejected-by-decoder".into(), format!("{name}: the server's decoder rejected the SDK's encoding of {:?}: {e}", expected))),
        Ok(Ok(d)) => {
            if d != expected {
                return Err(("request-decoded-differently".into(), format!("{name}: sent {:?}, server decoded {:?}", expected, d)));
            }
            if d.validate().is_err() {
                return Err(("request-validate-disagrees".into(), format!("{name}: valid at the client, invalid at the server: {:?}", d)));
            }
            Ok(())
        }
    }
}

fn run_cmd(w: &WCmd, serial: u64, boundary: &mut bool) -> Result<(), (String, String)> {
    use iggy::consumer_groups::{create_consumer_group::*, delete_consumer_group::*, get_consumer_group::*, get_consumer_groups::*, join_consumer_group::*, leave_consumer_group::*};
    use iggy::consumer_offsets::{delete_consumer_offset::*, get_consumer_offset::*, store_consumer_offset::*};
    use iggy::messages::flush_unsaved_buffer::FlushUnsavedBuffer;
    use iggy::partitions::{create_partitions::*, delete_partitions::*};
    use iggy::personal_access_tokens::{create_personal_access_token::*, delete_personal_access_token::*, get_personal_access_tokens::*, login_with_personal_access_token::*};
    use iggy::streams::{create_stream::*, delete_stream::*, get_stream::*, get_streams::*, purge_stream::*, update_stream::*};
    use iggy::system::{get_client::*, get_clients::*, get_me::*, get_stats::*, ping::*};
    use iggy::topics::{create_topic::*, delete_topic::*, get_topic::*, get_topics::*, purge_topic::*, update_topic::*};
    use iggy::users::{change_password::*, create_user::*, delete_user::*, get_user::*, get_users::*, login_user::*, logout_user::*, update_permissions::*, update_user::*};
    match w {
        WCmd::Ping => rt(Ping {}, ServerCommand::Ping, "ping", boundary),
        WCmd::GetStats => rt(GetStats {}, ServerCommand::GetStats, "get_stats", boundary),
        WCmd::GetMe => rt(GetMe {}, ServerCommand::GetMe, "get_me", boundary),
        WCmd::GetClient(id) => rt(GetClient { client_id: *id }, ServerCommand::GetClient, "get_client", boundary),
        WCmd::GetClients => rt(GetClients {}, ServerCommand::GetClients, "get_clients", boundary),
        WCmd::GetUser(i) => rt(GetUser { user_id: ident(i) }, ServerCommand::GetUser, "get_user", boundary),
        WCmd::GetUsers => rt(GetUsers {}, ServerCommand::GetUsers, "get_users", boundary),
        WCmd::CreateUser { name, pwd, active, perms } => rt(
            CreateUser { username: string_of(name), password: string_of(pwd), status: status(*active), permissions: norm_perms(perms).as_ref().map(permgen::build) },
            ServerCommand::CreateUser,
            "create_user",
            boundary,
        ),
        WCmd::DeleteUser(i) => rt(DeleteUser { user_id: ident(i) }, ServerCommand::DeleteUser, "delete_user", boundary),
        WCmd::UpdateUser { id, name, active } => rt(UpdateUser { user_id: ident(id), username: name.as_ref().map(string_of), status: active.map(status) }, ServerCommand::UpdateUser, "update_user", boundary),
        WCmd::UpdatePermissions { id, perms } => rt(UpdatePermissions { user_id: ident(id), permissions: norm_perms(perms).as_ref().map(permgen::build) }, ServerCommand::UpdatePermissions, "update_permissions", boundary),
        WCmd::ChangePassword { id, cur, new } => rt(ChangePassword { user_id: ident(id), current_password: string_of(cur), new_password: string_of(new) }, ServerCommand::ChangePassword, "change_password", boundary),
        WCmd::LoginUser { name, pwd, version, context } => rt(
            LoginUser { username: string_of(name), password: string_of(pwd), version: version.as_ref().map(string_of), context: context.as_ref().map(string_of) },
            ServerCommand::LoginUser,
            "login_user",
            boundary,
        ),
        WCmd::LogoutUser => rt(LogoutUser {}, ServerCommand::LogoutUser, "logout_user", boundary),
        WCmd::GetPats => rt(GetPersonalAccessTokens {}, ServerCommand::GetPersonalAccessTokens, "get_personal_access_tokens", boundary),
        WCmd::CreatePat { name, expiry: e } => rt(CreatePersonalAccessToken { name: string_of(name), expiry: expiry(*e) }, ServerCommand::CreatePersonalAccessToken, "create_personal_access_token", boundary),
        WCmd::DeletePat { name } => rt(DeletePersonalAccessToken { name: string_of(name) }, ServerCommand::DeletePersonalAccessToken, "delete_personal_access_token", boundary),
        WCmd::LoginPat { token } => rt(LoginWithPersonalAccessToken { token: string_of(token) }, ServerCommand::LoginWithPersonalAccessToken, "login_with_personal_access_token", boundary),
        WCmd::SendMessages { stream, topic, part, key, pid, msgs: specs } => {
            let partitioning = match part % 3 {
                0 => Partitioning::balanced(),
                1 => Partitioning::partition_id(*pid),
                _ => Partitioning::messages_key(string_of(key).as_bytes()).unwrap(),
            };
            let mut messages = vec![];
            for (j, s) in specs.iter().enumerate() {
                let mut s = s.clone();
                if s.id == 0 {
                    s.id = 1; // id 0 = "server assigns" is covered end to end (partlog); here ids are explicit
                }
                let (m, _) = msgs::build(&s, serial * 100 + j as u64, 1000, 0);
                // Some(empty) == None on the wire: the builder never produces Some(empty)
                messages.push(m);
            }
            rt(SendMessages { stream_id: ident(stream), topic_id: ident(topic), partitioning, messages }, ServerCommand::SendMessages, "send_messages", boundary)
        }
        WCmd::PollMessages { consumer: c, group, stream, topic, partition, kind, value, count, auto } => {
            let k = match kind % 5 {
                0 => PollingKind::Offset,
                1 => PollingKind::Timestamp,
                2 => PollingKind::First,
                3 => PollingKind::Last,
                _ => PollingKind::Next,
            };
            rt(
                PollMessages { consumer: consumer(c, *group), stream_id: ident(stream), topic_id: ident(topic), partition_id: *partition, strategy: PollingStrategy { kind: k, value: *value }, count: *count, auto_commit: *auto },
                ServerCommand::PollMessages,
                "poll_messages",
                boundary,
            )
        }
        WCmd::Flush { stream, topic, partition, fsync } => rt(FlushUnsavedBuffer { stream_id: ident(stream), topic_id: ident(topic), partition_id: *partition, fsync: *fsync }, ServerCommand::FlushUnsavedBuffer, "flush_unsaved_buffer", boundary),
        WCmd::GetOffset { consumer: c, group, stream, topic, partition } => rt(GetConsumerOffset { consumer: consumer(c, *group), stream_id: ident(stream), topic_id: ident(topic), partition_id: *partition }, ServerCommand::GetConsumerOffset, "get_consumer_offset", boundary),
        WCmd::StoreOffset { consumer: c, group, stream, topic, partition, offset } => rt(
            StoreConsumerOffset { consumer: consumer(c, *group), stream_id: ident(stream), topic_id: ident(topic), partition_id: *partition, offset: *offset },
            ServerCommand::StoreConsumerOffset,
            "store_consumer_offset",
            boundary,
        ),
        WCmd::DeleteOffset { consumer: c, group, stream, topic, partition } => rt(DeleteConsumerOffset { consumer: consumer(c, *group), stream_id: ident(stream), topic_id: ident(topic), partition_id: *partition }, ServerCommand::DeleteConsumerOffset, "delete_consumer_offset", boundary),
        WCmd::GetStream(i) => rt(GetStream { stream_id: ident(i) }, ServerCommand::GetStream, "get_stream", boundary),
        WCmd::GetStreams => rt(GetStreams {}, ServerCommand::GetStreams, "get_streams", boundary),
        WCmd::CreateStream { id, name } => rt(CreateStream { stream_id: *id, name: string_of(name) }, ServerCommand::CreateStream, "create_stream", boundary),
        WCmd::DeleteStream(i) => rt(DeleteStream { stream_id: ident(i) }, ServerCommand::DeleteStream, "delete_stream", boundary),
        WCmd::UpdateStream { id, name } => rt(UpdateStream { stream_id: ident(id), name: string_of(name) }, ServerCommand::UpdateStream, "update_stream", boundary),
        WCmd::PurgeStream(i) => rt(PurgeStream { stream_id: ident(i) }, ServerCommand::PurgeStream, "purge_stream", boundary),
        WCmd::GetTopic(a, b) => rt(GetTopic { stream_id: ident(a), topic_id: ident(b) }, ServerCommand::GetTopic, "get_topic", boundary),
        WCmd::GetTopics(a) => rt(GetTopics { stream_id: ident(a) }, ServerCommand::GetTopics, "get_topics", boundary),
        WCmd::CreateTopic { stream, id, partitions, expiry: e, max, repl, name } => rt(
            CreateTopic { stream_id: ident(stream), topic_id: *id, partitions_count: *partitions, compression_algorithm: CompressionAlgorithm::None, message_expiry: expiry(*e), max_topic_size: max_size(*max), replication_factor: *repl, name: string_of(name) },
            ServerCommand::CreateTopic,
            "create_topic",
            boundary,
        ),
        WCmd::DeleteTopic(a, b) => rt(DeleteTopic { stream_id: ident(a), topic_id: ident(b) }, ServerCommand::DeleteTopic, "delete_topic", boundary),
        WCmd::UpdateTopic { stream, topic, expiry: e, max, repl, name } => rt(
            UpdateTopic { stream_id: ident(stream), topic_id: ident(topic), compression_algorithm: CompressionAlgorithm::Gzip, message_expiry: expiry(*e), max_topic_size: max_size(*max), replication_factor: *repl, name: string_of(name) },
            ServerCommand::UpdateTopic,
            "update_topic",
            boundary,
        ),
        WCmd::PurgeTopic(a, b) => rt(PurgeTopic { stream_id: ident(a), topic_id: ident(b) }, ServerCommand::PurgeTopic, "purge_topic", boundary),
        WCmd::CreatePartitions(a, b, n) => rt(CreatePartitions { stream_id: ident(a), topic_id: ident(b), partitions_count: *n }, ServerCommand::CreatePartitions, "create_partitions", boundary),
        WCmd::DeletePartitions(a, b, n) => rt(DeletePartitions { stream_id: ident(a), topic_id: ident(b), partitions_count: *n }, ServerCommand::DeletePartitions, "delete_partitions", boundary),
        WCmd::GetGroup(a, b, c) => rt(GetConsumerGroup { stream_id: ident(a), topic_id: ident(b), group_id: ident(c) }, ServerCommand::GetConsumerGroup, "get_consumer_group", boundary),
        WCmd::GetGroups(a, b) => rt(GetConsumerGroups { stream_id: ident(a), topic_id: ident(b) }, ServerCommand::GetConsumerGroups, "get_consumer_groups", boundary),
        WCmd::CreateGroup { stream, topic, id, name } => rt(CreateConsumerGroup { stream_id: ident(stream), topic_id: ident(topic), group_id: *id, name: string_of(name) }, ServerCommand::CreateConsumerGroup, "create_consumer_group", boundary),
        WCmd::DeleteGroup(a, b, c) => rt(DeleteConsumerGroup { stream_id: ident(a), topic_id: ident(b), group_id: ident(c) }, ServerCommand::DeleteConsumerGroup, "delete_consumer_group", boundary),
        WCmd::JoinGroup(a, b, c) => rt(JoinConsumerGroup { stream_id: ident(a), topic_id: ident(b), group_id: ident(c) }, ServerCommand::JoinConsumerGroup, "join_consumer_group", boundary),
        WCmd::LeaveGroup(a, b, c) => rt(LeaveConsumerGroup { stream_id: ident(a), topic_id: ident(b), group_id: ident(c) }, ServerCommand::LeaveConsumerGroup, "leave_consumer_group", boundary),
        WCmd::RetainedMsg { spec, offset, ts } => {
            let mut s = spec.clone();
            if s.id == 0 {
                s.id = 2;
            }
            let (m, mm) = msgs::build(&s, serial, 5000, *ts);
            let r = RetainedMessage::new(*offset, *ts, m);
            let mut buf = BytesMut::new();
            r.extend(&mut buf);
            let all = buf.freeze();
            let len = u32::from_le_bytes(all[..4].try_into().unwrap()) as usize;
            if len + 4 != all.len() {
                return Err(("disk-message-length-prefix".into(), format!("RetainedMessage::extend wrote length {len} for {} bytes", all.len() - 4)));
            }
            let back = std::panic::catch_unwind(std::panic::AssertUnwindSafe(|| RetainedMessage::try_from_bytes(all.slice(4..))));
            match back {
                Err(_) => Err(("disk-message-decoder-panics".into(), format!("try_from_bytes panicked on {:?}", s))),
                Ok(Err(e)) => Err(("disk-message-rejected".into(), format!("try_from_bytes rejected its own encoding: {e}"))),
                Ok(Ok(b)) => {
                    let pm = b.to_polled_message().map_err(|e| ("disk-message-headers".to_string(), format!("{e}")))?;
                    let mut mm = mm;
                    msgs::compare(&pm, *offset, &mut mm, false, true).map_err(|d| ("disk-message-roundtrip".to_string(), d))
                }
            }
        }
        WCmd::EntryPat { name, expiry: e, hash } => {
            let c = EntryCommand::CreatePersonalAccessToken(CreatePersonalAccessTokenWithHash {
                command: CreatePersonalAccessToken { name: string_of(name), expiry: expiry(*e) },
                hash: string_of(hash),
            });
            let bytes = c.to_bytes();
            let back = std::panic::catch_unwind(std::panic::AssertUnwindSafe(|| EntryCommand::from_bytes(bytes.clone())));
            match back {
                Err(_) => Err(("journal-command-decoder-panics".into(), format!("{:?}", c))),
                Ok(Err(e)) => Err(("journal-command-rejected".into(), format!("{:?}: {e}", c))),
                Ok(Ok(d)) if d != c => Err(("journal-command-roundtrip".into(), format!("{:?} decoded as {:?}", c, d))),
                _ => Ok(()),
            }
        }
    }
}

/// journal form of the catalogue-mutating requests (C13 c): same value through EntryCommand
fn journal_rt(w: &WCmd) -> Result<(), (String, String)> {
    use iggy::streams::{create_stream::*, update_stream::*};
    use iggy::topics::create_topic::*;
    use iggy::users::{create_user::*, update_permissions::*};
    let (c, c2): (EntryCommand, EntryCommand) = match w {
        WCmd::CreateStream { id, name } => (
            EntryCommand::CreateStream(CreateStream { stream_id: *id, name: string_of(name) }),
            EntryCommand::CreateStream(CreateStream { stream_id: *id, name: string_of(name) }),
        ),
        WCmd::UpdateStream { id, name } => (
            EntryCommand::UpdateStream(UpdateStream { stream_id: ident(id), name: string_of(name) }),
            EntryCommand::UpdateStream(UpdateStream { stream_id: ident(id), name: string_of(name) }),
        ),
        WCmd::CreateTopic { stream, id, partitions, expiry: e, max, repl, name } => {
            let mk = || CreateTopic { stream_id: ident(stream), topic_id: *id, partitions_count: *partitions, compression_algorithm: CompressionAlgorithm::None, message_expiry: expiry(*e), max_topic_size: max_size(*max), replication_factor: *repl, name: string_of(name) };
            (EntryCommand::CreateTopic(mk()), EntryCommand::CreateTopic(mk()))
        }
        WCmd::CreateUser { name, pwd, active, perms } => {
            let perms = perms.as_ref().map(permgen::normalized);
            let mk = || CreateUser { username: string_of(name), password: string_of(pwd), status: status(*active), permissions: perms.as_ref().map(permgen::build) };
            (EntryCommand::CreateUser(mk()), EntryCommand::CreateUser(mk()))
        }
        WCmd::UpdatePermissions { id, perms } => {
            let perms = perms.as_ref().map(permgen::normalized);
            let mk = || UpdatePermissions { user_id: ident(id), permissions: perms.as_ref().map(permgen::build) };
            (EntryCommand::UpdatePermissions(mk()), EntryCommand::UpdatePermissions(mk()))
        }
        _ => return Ok(()),
    };
    let valid = match &c {
        EntryCommand::CreateStream(x) => x.validate().is_ok(),
        EntryCommand::UpdateStream(x) => x.validate().is_ok(),
        EntryCommand::CreateTopic(x) => x.validate().is_ok(),
        EntryCommand::CreateUser(x) => x.validate().is_ok(),
        EntryCommand::UpdatePermissions(x) => x.validate().is_ok(),
        _ => true,
    };
    if !valid {
        return Ok(());
    }
    let bytes = c.to_bytes();
    let back = std::panic::catch_unwind(std::panic::AssertUnwindSafe(|| EntryCommand::from_bytes(bytes.clone())));
    match back {
        Err(_) => Err(("journal-command-decoder-panics".into(), format!("{:?}", c2))),
        Ok(Err(e)) => Err(("journal-command-rejected".into(), format!("{:?}: {e}", c2))),
        Ok(Ok(d)) if d != c2 => Err(("journal-command-roundtrip".into(), format!("{:?} decoded as {:?}", c2, d))),
        _ => Ok(()),
    }
}

fn is_boundary(w: &WCmd) -> bool {
    let s = serde_json::to_string(w).unwrap_or_default();
    s.contains("\"Name\":[1,") || s.contains("\"Name\":[255,") || s.contains("null") || s.contains("\"len\":255") || s.contains("4294967295")
}

impl Engine for Wire {
    type Case = WCase;
    fn strategy(&self, _p: &Params) -> BoxedStrategy<WCase> {
        proptest::collection::vec(cmd_strategy(), 1..=12).prop_map(|cmds| WCase { cmds }).boxed()
    }
    fn run(&self, case: &WCase, _p: &Params) -> Outcome {
        let mut out = Outcome::default();
        let _ = take_panics();
        for (i, w) in case.cmds.iter().enumerate() {
            out.steps += 1;
            let mut b = false;
            let r = run_cmd(w, i as u64 + 1, &mut b).and_then(|_| journal_rt(w));
            let _ = take_panics();
            if is_boundary(w) {
                out.nontrivial = true;
                out.label("boundary-or-absent-field");
            }
            let name = format!("{:?}", w);
            let name = name.split(|c: char| !c.is_alphanumeric()).next().unwrap_or("").to_string();
            out.count(&format!("cmd:{name}"), 1);
            if let Err((clause, detail)) = r {
                out.failure = Some(Failure::new("C13", &clause, format!("command {i} ({name}): {detail}")).tag(format!("cmd:{name}")));
                return out;
            }
        }
        out
    }
    fn rule(&self, _p: &Params) -> String {
        "case = 1..12 generated request values over all 45 binary commands (every identifier kind incl. 1- and 255-byte names, partitioning kinds, polling strategies, header kinds, optional fields present/absent, u32/u64 edges, nested permission records) plus stored-message and journal-command values; each is encoded by the SDK, decoded by the server's decoder (hook H6) and must come back equal and valid; non-trivial = a case containing a value with a boundary-length or absent optional field".into()
    }
    fn assumptions(&self, _p: &Params) -> Vec<String> {
        vec![
            "values the SDK's own validate() rejects are not sent by the SDK and are skipped".into(),
            "message id 0 (server assigns) is covered end to end by the partlog engine; here ids are explicit".into(),
        ]
    }
}
