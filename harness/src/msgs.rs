//! Message generation shared by the engines: compact specs (what the case stores)
//! expanded deterministically into payload / headers.

use bytes::Bytes;
use iggy::messages::send_messages::Message;
use iggy::models::header::{HeaderKey, HeaderValue};
use iggy::models::messages::PolledMessage;
use proptest::prelude::*;
use serde::{Deserialize, Serialize};
use std::collections::HashMap;

#[derive(Debug, Clone, PartialEq, Serialize, Deserialize)]
pub struct MsgSpec {
    /// 0 = server assigns the id; k>0 = k-th id of the pool
    pub id: u8,
    pub len: u32,
    /// 0 = no headers; otherwise selects count (1..=4) and kinds
    pub hdr: u8,
}

pub fn msg_spec(id_pool: u8, big: bool) -> impl Strategy<Value = MsgSpec> {
    let len = if big {
        prop_oneof![
            60 => 1u32..=64,
            30 => 65u32..=4096,
            9 => 4097u32..=120_000,
            1 => prop_oneof![4 => 120_001u32..=1_200_000, 1 => 2_100_000u32..=2_600_000],
        ]
        .boxed()
    } else {
        // (0.3 % around 1 MB: a few cases per thousand then hold a stored batch above 2 MiB, the
        // largest single write the server's file layer accepts - see KF-C02-4)
        prop_oneof![
            750 => 1u32..=64,
            220 => 65u32..=1500,
            27 => 1501u32..=20_000,
            2 => 700_000u32..=1_150_000,
            1 => 2_100_000u32..=2_400_000,
        ]
        .boxed()
    };
    let id = if id_pool == 0 {
        Just(0u8).boxed()
    } else {
        prop_oneof![1 => Just(0u8), 4 => 1u8..=id_pool].boxed()
    };
    (id, len, prop_oneof![3 => Just(0u8), 1 => 1u8..=255]).prop_map(|(id, len, hdr)| MsgSpec { id, len, hdr })
}

/// deterministic filler: xorshift64* keyed by serial
pub fn fill(serial: u64, len: usize) -> Vec<u8> {
    let mut out = Vec::with_capacity(len);
    let mut x = serial.wrapping_mul(0x9E3779B97F4A7C15) ^ 0xD1B54A32D192ED03;
    if x == 0 {
        x = 1;
    }
    while out.len() < len {
        x ^= x >> 12;
        x ^= x << 25;
        x ^= x >> 27;
        let v = x.wrapping_mul(0x2545F4914F6CDD1D).to_le_bytes();
        let take = (len - out.len()).min(8);
        out.extend_from_slice(&v[..take]);
    }
    out
}

/// The model's view of a message (what the harness sent).
#[derive(Debug, Clone, PartialEq)]
pub struct ModelMsg {
    /// None = server-assigned, learned at first read and then held
    pub id: Option<u128>,
    pub payload: Vec<u8>,
    /// canonical, sorted (key, kind code, value bytes)
    pub headers: Vec<(String, u8, Vec<u8>)>,
    pub ts: u64,
    /// checksum observed at first read when it cannot be predicted (encryption)
    pub checksum_seen: Option<u32>,
    pub serial: u64,
}

pub fn build_headers(serial: u64, hdr: u8) -> Option<HashMap<HeaderKey, HeaderValue>> {
    if hdr == 0 {
        return None;
    }
    let count = (hdr & 3) as usize + 1;
    let mut m = HashMap::new();
    for i in 0..count {
        let sel = (hdr as u64 >> 2).wrapping_add(i as u64 * 5).wrapping_add(serial) % 16;
        let keylen = match (hdr >> 4) & 3 {
            0 => 1 + i,
            1 => 10 + i,
            2 => 100 + i,
            _ => 255 - i,
        };
        let mut key = format!("k{i}");
        while key.len() < keylen {
            key.push((b'a' + ((key.len() as u64 + serial) % 26) as u8) as char);
        }
        let key = HeaderKey::new(&key).expect("header key");
        let f = fill((serial ^ 0x5A5A_0000_0000_0000).wrapping_mul(0x1000_0000_01B3) ^ ((i as u64 + 1) << 40), 16);
        let val = match sel {
            0 => HeaderValue::from_raw(&f[..(1 + (f[0] as usize % 15))]).unwrap(),
            1 => HeaderValue::from_kind_and_value_str(iggy::models::header::HeaderKind::String, &format!("v{}", serial)).unwrap(),
            2 => HeaderValue::from_bool(f[0] & 1 == 1).unwrap(),
            3 => HeaderValue::from_int8(f[0] as i8).unwrap(),
            4 => HeaderValue::from_int16(i16::from_le_bytes([f[0], f[1]])).unwrap(),
            5 => HeaderValue::from_int32(i32::from_le_bytes(f[0..4].try_into().unwrap())).unwrap(),
            6 => HeaderValue::from_int64(i64::from_le_bytes(f[0..8].try_into().unwrap())).unwrap(),
            7 => HeaderValue::from_int128(i128::from_le_bytes(f[0..16].try_into().unwrap())).unwrap(),
            8 => HeaderValue::from_uint8(f[0]).unwrap(),
            9 => HeaderValue::from_uint16(u16::from_le_bytes([f[0], f[1]])).unwrap(),
            10 => HeaderValue::from_uint32(u32::from_le_bytes(f[0..4].try_into().unwrap())).unwrap(),
            11 => HeaderValue::from_uint64(u64::from_le_bytes(f[0..8].try_into().unwrap())).unwrap(),
            12 => HeaderValue::from_uint128(u128::from_le_bytes(f[0..16].try_into().unwrap())).unwrap(),
            13 => HeaderValue::from_float32(f[0] as f32 * 0.5).unwrap(),
            14 => HeaderValue::from_float64(f[1] as f64 * 0.25).unwrap(),
            _ => HeaderValue::from_raw(&fill(serial ^ 0x3C3C_0000_0000_0001, 200)).unwrap(),
        };
        m.insert(key, val);
    }
    Some(m)
}

pub fn canon_headers(h: &Option<HashMap<HeaderKey, HeaderValue>>) -> Vec<(String, u8, Vec<u8>)> {
    let mut v: Vec<(String, u8, Vec<u8>)> = match h {
        None => vec![],
        Some(m) => m
            .iter()
            .map(|(k, v)| (k.as_str().to_string(), v.kind.as_code(), v.value.to_vec()))
            .collect(),
    };
    v.sort();
    v
}

/// Builds the SDK message and the model's record of it.
pub fn build(spec: &MsgSpec, serial: u64, id_base: u128, ts: u64) -> (Message, ModelMsg) {
    let payload = fill(serial, spec.len as usize);
    let headers = build_headers(serial, spec.hdr);
    let id = if spec.id == 0 { None } else { Some(id_base + spec.id as u128) };
    let m = Message::new(id, Bytes::from(payload.clone()), headers.clone());
    let mm = ModelMsg {
        id,
        payload,
        headers: canon_headers(&headers),
        ts,
        checksum_seen: None,
        serial,
    };
    (m, mm)
}

/// Element-wise comparison of a polled message with the model (C02 clause list:
/// offset, id, payload, headers, checksum, timestamp). Learns server-assigned ids
/// and unpredictable checksums at first sight and holds the server to them.
pub fn compare(pm: &PolledMessage, offset: u64, mm: &mut ModelMsg, encrypted: bool, check_ts: bool) -> Result<(), String> {
    if pm.offset != offset {
        return Err(format!("offset {} where {} expected", pm.offset, offset));
    }
    match mm.id {
        Some(id) => {
            if pm.id != id {
                return Err(format!("offset {offset}: id {} where {} was sent", pm.id, id));
            }
        }
        None => {
            if pm.id == 0 {
                return Err(format!("offset {offset}: server-assigned id is 0"));
            }
            mm.id = Some(pm.id);
        }
    }
    if pm.payload.as_ref() != mm.payload.as_slice() {
        return Err(format!(
            "offset {offset}: payload differs: got {} expected {} (serial {})",
            crate::common::short(&pm.payload),
            crate::common::short(&mm.payload),
            mm.serial
        ));
    }
    let h = canon_headers(&pm.headers);
    if h != mm.headers {
        return Err(format!("offset {offset}: headers differ: got {:?} expected {:?}", h, mm.headers));
    }
    if encrypted {
        match mm.checksum_seen {
            Some(c) if c != pm.checksum => {
                return Err(format!("offset {offset}: checksum changed between reads: {} then {}", c, pm.checksum))
            }
            _ => mm.checksum_seen = Some(pm.checksum),
        }
    } else {
        let c = crate::common::crc32_ieee(&mm.payload);
        if pm.checksum != c {
            return Err(format!("offset {offset}: checksum {} but CRC32(payload) = {}", pm.checksum, c));
        }
    }
    if check_ts && pm.timestamp != mm.ts {
        return Err(format!("offset {offset}: timestamp {} where {} expected", pm.timestamp, mm.ts));
    }
    Ok(())
}
