//! Coordinator / worker machinery shared by all engines.
//!
//! coordinator (`vcheck <PROP> --tier quick`):
//!   replays /verif/regressions/<PROP>/*.json, then spawns worker processes of itself
//!   for every job of the property's plan, aggregates their JSON-line reports,
//!   classifies failures against /verif/known_findings.json, writes the evidence
//!   file and prints VIOLATION / KNOWN-FINDING lines.
//! worker (`vcheck --worker ...`): a proptest TestRunner over one engine.

use crate::common::*;
use proptest::strategy::{BoxedStrategy, Strategy};
use proptest::test_runner::{Config, RngAlgorithm, TestCaseError, TestError, TestRng, TestRunner};
use serde::de::DeserializeOwned;
use serde::{Deserialize, Serialize};
use serde_json::{json, Value};
use std::cell::RefCell;
use std::collections::{BTreeMap, BTreeSet};
use std::fmt::Debug;
use std::io::Write;
use std::path::{Path, PathBuf};
use std::sync::atomic::{AtomicU64, Ordering};
use std::sync::{Arc, Mutex};
use std::time::{Duration, Instant};

pub const VERIF_ROOT: &str = "/verif";

#[derive(Debug, Clone, Copy, PartialEq, Eq, Serialize, Deserialize)]
pub enum Tier {
    Quick,
    Thorough,
}

impl Tier {
    pub fn as_str(&self) -> &'static str {
        match self {
            Tier::Quick => "quick",
            Tier::Thorough => "thorough",
        }
    }
}

/// Everything an engine needs to know about the run it is part of.
#[derive(Debug, Clone, Serialize, Deserialize)]
pub struct Params {
    pub property: String,
    pub check: String,
    pub tier: Tier,
    pub seed: u64,
    pub widx: usize,
    pub nworkers: usize,
    pub cases: u32,
    /// ids of open known findings: engines steer around / mask exactly these
    pub open_findings: Vec<String>,
    /// free-form engine flavour chosen by the plan (e.g. "dedup", "enc")
    pub flavour: String,
    /// strict = replay mode: no exclusions, nothing masked
    pub strict: bool,
}

impl Params {
    pub fn masked(&self, finding: &str) -> bool {
        !self.strict && self.open_findings.iter().any(|f| f == finding)
    }
}

pub trait Engine {
    type Case: Serialize + DeserializeOwned + Debug + Clone + 'static;
    fn strategy(&self, p: &Params) -> BoxedStrategy<Self::Case>;
    fn run(&self, case: &Self::Case, p: &Params) -> Outcome;
    /// the stated rule for generation and non-triviality (goes into the evidence)
    fn rule(&self, p: &Params) -> String;
    fn assumptions(&self, _p: &Params) -> Vec<String> {
        vec![]
    }
    /// minimum share (percent) of cases that must carry a label; a generator
    /// self-check, not a property verdict
    fn label_floor(&self, _p: &Params) -> Vec<(&'static str, f64)> {
        vec![]
    }
    /// tags added to every failure of a run (the mode the run was made in), so that a known-finding
    /// signature can be tied to the mode in which that finding can arise at all
    fn context_tags(&self, _p: &Params) -> Vec<String> {
        vec![]
    }
}

// ------------------------------------------------------------------ worker side

#[derive(Debug, Clone)]
pub struct WorkerArgs {
    pub params: Params,
    pub out: PathBuf,
    pub case_timeout_s: u64,
    pub max_shrink_iters: u32,
}

fn run_guarded<E: Engine>(e: &E, case: &E::Case, p: &Params) -> Outcome {
    let mut o = run_guarded_inner(e, case, p);
    if let Some(mut f) = o.failure.take() {
        for t in e.context_tags(p) {
            if !f.tags.contains(&t) {
                f = f.tag(t);
            }
        }
        o.failure = Some(f);
    }
    o
}

fn run_guarded_inner<E: Engine>(e: &E, case: &E::Case, p: &Params) -> Outcome {
    let r = std::panic::catch_unwind(std::panic::AssertUnwindSafe(|| e.run(case, p)));
    match r {
        Ok(o) => o,
        Err(_) => {
            // a panic that escaped the interpreter: either harness bug or a server
            // panic on the harness thread outside a guarded step
            let panics = take_panics();
            let mut o = Outcome::default();
            let repo: Vec<_> = panics.iter().filter(|p| is_repo_panic(p)).collect();
            if let Some(rp) = repo.first() {
                o.failure = Some(
                    Failure::new(
                        &p.property,
                        "panic-escaped",
                        format!("server/sdk panic: {} at {} (in {})", rp.message, rp.location, rp.repo_frame),
                    )
                    .tag(format!("panic@{}", rp.location.rsplit('/').next().unwrap_or(""))),
                );
            } else {
                o.inconclusive = Some(format!("harness panic: {:?}", panics.last()));
            }
            o
        }
    }
}

pub fn worker_main<E: Engine>(e: &E, args: WorkerArgs) -> i32 {
    install_panic_hook();
    let p = args.params.clone();
    let mut out = std::io::BufWriter::new(std::fs::File::create(&args.out).expect("out file"));
    let current_case: Arc<Mutex<String>> = Arc::new(Mutex::new(String::new()));
    let beat = Arc::new(AtomicU64::new(0));
    // watchdog: a case that runs longer than the limit is reported as a hang (inconclusive)
    {
        let current_case = current_case.clone();
        let beat = beat.clone();
        let out_path = args.out.clone();
        let limit = args.case_timeout_s;
        std::thread::Builder::new()
            .name("watchdog".into())
            .spawn(move || {
                let mut last = 0u64;
                let mut since = Instant::now();
                loop {
                    std::thread::sleep(Duration::from_millis(500));
                    let b = beat.load(Ordering::SeqCst);
                    if b == u64::MAX {
                        return;
                    }
                    if b != last {
                        last = b;
                        since = Instant::now();
                    } else if since.elapsed() > Duration::from_secs(limit) {
                        let case = current_case.lock().map(|c| c.clone()).unwrap_or_default();
                        let line = json!({"t":"hang","case_json":case,"limit_s":limit});
                        if let Ok(mut f) = std::fs::OpenOptions::new()
                            .append(true)
                            .open(format!("{}.hang", out_path.display()))
                            .or_else(|_| std::fs::File::create(format!("{}.hang", out_path.display())))
                        {
                            let _ = writeln!(f, "{}", line);
                        }
                        std::process::exit(3);
                    }
                }
            })
            .ok();
    }

    let seed = mix64(p.seed ^ mix64(fnv64(p.property.as_bytes()) ^ fnv64(p.check.as_bytes())) ^ ((p.widx as u64) << 32));
    let rng = TestRng::from_seed(RngAlgorithm::ChaCha, &seed_bytes(seed));
    let config = Config {
        cases: p.cases,
        failure_persistence: None,
        max_shrink_iters: args.max_shrink_iters,
        max_global_rejects: 10_000,
        ..Config::default()
    };
    let mut runner = TestRunner::new_with_rng(config, rng);
    let strategy = e.strategy(&p);

    struct St {
        first_failure: Option<Failure>,
        evaluations: u64,
        shrink_runs: u64,
        samples: Vec<Value>,
    }
    let st = RefCell::new(St {
        first_failure: None,
        evaluations: 0,
        shrink_runs: 0,
        samples: vec![],
    });
    let out_cell = RefCell::new(&mut out);
    let inconclusive: RefCell<Option<String>> = RefCell::new(None);

    let result = runner.run(&strategy, |case| {
        beat.fetch_add(1, Ordering::SeqCst);
        if let Ok(mut c) = current_case.lock() {
            *c = serde_json::to_string(&case).unwrap_or_default();
        }
        let shrinking = st.borrow().first_failure.is_some();
        let o = run_guarded(e, &case, &p);
        let _ = take_panics();
        if shrinking {
            st.borrow_mut().shrink_runs += 1;
            // while shrinking, only the *same* clause counts as "still failing"
            let ff = st.borrow().first_failure.clone().unwrap();
            return match &o.failure {
                Some(f) if f.property == ff.property && f.clause == ff.clause => {
                    Err(TestCaseError::fail(f.clause.clone()))
                }
                _ => Ok(()),
            };
        }
        if let Some(why) = &o.inconclusive {
            *inconclusive.borrow_mut() = Some(why.clone());
            // not counted, not a failure; stop early by failing the runner is wrong: just go on
            return Ok(());
        }
        {
            let mut s = st.borrow_mut();
            s.evaluations += 1;
            let h = hash_json(&case);
            let line = json!({
                "t":"case","h":format!("{:016x}",h),"nt":o.nontrivial,"labels":o.labels,
                "steps":o.steps,"excluded":o.excluded,"counters":o.counters,"ok":o.failure.is_none()
            });
            let _ = writeln!(out_cell.borrow_mut(), "{}", line);
            if o.nontrivial && s.samples.len() < 3 && o.failure.is_none() {
                let v = serde_json::to_value(&case).unwrap_or(Value::Null);
                s.samples.push(v);
            }
        }
        match o.failure {
            Some(f) => {
                st.borrow_mut().first_failure = Some(f.clone());
                Err(TestCaseError::fail(f.clause))
            }
            None => Ok(()),
        }
    });
    beat.store(u64::MAX, Ordering::SeqCst);

    let mut code = 0;
    match result {
        Ok(()) => {}
        Err(TestError::Fail(_, shrunk)) => {
            // re-run the shrunk case once more (strictly the same way) to get the failure
            let mut o = run_guarded(e, &shrunk, &p);
            let mut tries = 0;
            let ff = st.borrow().first_failure.clone();
            while o.failure.is_none() && tries < 3 {
                o = run_guarded(e, &shrunk, &p);
                tries += 1;
            }
            let (failure, reproducible) = match o.failure {
                Some(f) => (f, true),
                None => (ff.unwrap_or_else(|| Failure::new(&p.property, "unknown", "")), false),
            };
            let line = json!({
                "t":"fail","case":serde_json::to_value(&shrunk).unwrap_or(Value::Null),
                "failure":failure,"reproducible":reproducible,
                "shrink_runs":st.borrow().shrink_runs
            });
            let _ = writeln!(out_cell.borrow_mut(), "{}", line);
            code = 1;
        }
        Err(TestError::Abort(why)) => {
            let line = json!({"t":"abort","why":why.to_string()});
            let _ = writeln!(out_cell.borrow_mut(), "{}", line);
            code = 2;
        }
    }
    if let Some(why) = inconclusive.borrow().clone() {
        let line = json!({"t":"inconclusive","why":why});
        let _ = writeln!(out_cell.borrow_mut(), "{}", line);
        if code == 0 {
            code = 2;
        }
    }
    let s = st.borrow();
    let line = json!({"t":"done","evaluations":s.evaluations,"samples":s.samples,
        "rule":e.rule(&p),"assumptions":e.assumptions(&p),
        "floors": e.label_floor(&p).iter().map(|(l,f)| json!([l,f])).collect::<Vec<_>>() });
    let _ = writeln!(out_cell.borrow_mut(), "{}", line);
    drop(out_cell);
    let _ = out.flush();
    let _ = std::fs::remove_dir_all(scratch_root());
    code
}

/// Replay one saved case strictly (no generator, no proptest, nothing masked).
pub fn replay_case<E: Engine>(e: &E, case_json: &Value, p: &Params) -> Outcome {
    install_panic_hook();
    let case: E::Case = match serde_json::from_value(case_json.clone()) {
        Ok(c) => c,
        Err(err) => {
            let mut o = Outcome::default();
            o.inconclusive = Some(format!("replay file does not parse as a case: {err}"));
            return o;
        }
    };
    let o = run_guarded(e, &case, p);
    let _ = std::fs::remove_dir_all(scratch_root());
    o
}

// ------------------------------------------------------------------ known findings

#[derive(Debug, Clone, Serialize, Deserialize)]
pub struct Finding {
    pub id: String,
    pub property: String,
    /// "open" | "fixed"
    pub status: String,
    #[serde(default)]
    pub commit: Option<String>,
    pub clause: String,
    #[serde(default)]
    pub tags: Vec<String>,
    pub what_fails: String,
}

pub fn load_findings() -> Vec<Finding> {
    let path = Path::new(VERIF_ROOT).join("known_findings.json");
    match std::fs::read_to_string(&path) {
        Ok(s) => {
            let v: Value = serde_json::from_str(&s).expect("known_findings.json parses");
            serde_json::from_value(v["findings"].clone()).unwrap_or_default()
        }
        Err(_) => vec![],
    }
}

pub fn match_open<'a>(findings: &'a [Finding], f: &Failure) -> Option<&'a Finding> {
    findings.iter().find(|k| {
        k.status == "open"
            && k.property == f.property
            && k.clause.split('|').any(|c| c == f.clause)
            && k.tags.iter().all(|t| t.split('|').any(|alt| f.tags.iter().any(|ft| ft == alt)))
    })
}

// ------------------------------------------------------------------ coordinator side

#[derive(Debug, Clone)]
pub struct Job {
    pub check: &'static str,
    pub flavour: &'static str,
    pub cases: u32,
    pub workers: usize,
    /// cache modes to spread over the workers ("off","big","tiny")
    pub caches: Vec<&'static str>,
    pub case_timeout_s: u64,
    pub max_shrink_iters: u32,
}

impl Job {
    pub fn new(check: &'static str, cases: u32) -> Job {
        Job {
            check,
            flavour: "",
            cases,
            workers: 16,
            caches: vec!["off"],
            case_timeout_s: 240,
            max_shrink_iters: 400,
        }
    }
    pub fn flavour(mut self, f: &'static str) -> Job {
        self.flavour = f;
        self
    }
    pub fn workers(mut self, w: usize) -> Job {
        self.workers = w;
        self
    }
    pub fn caches(mut self, c: &[&'static str]) -> Job {
        self.caches = c.to_vec();
        self
    }
    pub fn timeout(mut self, s: u64) -> Job {
        self.case_timeout_s = s;
        self
    }
    pub fn shrink(mut self, n: u32) -> Job {
        self.max_shrink_iters = n;
        self
    }
}

#[derive(Default)]
struct JobAgg {
    evaluations: u64,
    nontrivial_hashes: BTreeSet<String>,
    all_hashes: BTreeSet<String>,
    labels: BTreeMap<String, u64>,
    steps: u64,
    excluded: BTreeMap<String, u64>,
    counters: BTreeMap<String, u64>,
    samples: Vec<Value>,
    rule: String,
    assumptions: Vec<String>,
    floors: Vec<(String, f64)>,
    fails: Vec<Value>,
    inconclusive: Vec<String>,
}

pub struct CoordArgs {
    pub property: String,
    pub tier: Tier,
    pub seed: u64,
    pub level: &'static str,
    pub jobs: Vec<Job>,
}

fn exe() -> PathBuf {
    std::env::current_exe().expect("current exe")
}

fn ncores() -> usize {
    std::thread::available_parallelism().map(|n| n.get()).unwrap_or(4)
}

pub fn coordinator(args: CoordArgs) -> i32 {
    let t0 = Instant::now();
    let findings = load_findings();
    let open: Vec<String> = findings
        .iter()
        .filter(|f| f.status == "open")
        .map(|f| f.id.clone())
        .collect();
    let prop = args.property.clone();
    let run_dir = PathBuf::from(
        std::env::var("VERIF_SCRATCH").unwrap_or_else(|_| "/dev/shm".to_string()),
    )
    .join(format!("iggy-verif-coord-{}", std::process::id()));
    let _ = std::fs::remove_dir_all(&run_dir);
    std::fs::create_dir_all(&run_dir).expect("run dir");

    let mut violations: Vec<(Failure, PathBuf)> = vec![];
    let mut known_hits: BTreeMap<String, u64> = BTreeMap::new();
    let mut inconclusive: Vec<String> = vec![];
    let mut per_check: BTreeMap<String, Value> = BTreeMap::new();
    let mut total = JobAgg::default();
    let mut regression_report: Vec<Value> = vec![];

    // ---- 1. regression corpus (strict replays)
    let reg_dir = Path::new(VERIF_ROOT).join("regressions").join(&prop);
    let mut reg_files: Vec<PathBuf> = std::fs::read_dir(&reg_dir)
        .map(|rd| rd.flatten().map(|e| e.path()).filter(|p| p.extension().map(|e| e == "json").unwrap_or(false)).collect())
        .unwrap_or_default();
    reg_files.sort();
    // all regression replays run concurrently (each in its own process), results are read in order
    let mut reg_children: Vec<Option<std::process::Child>> = vec![];
    for rf in &reg_files {
        let outp = run_dir.join(format!("reg-{}.out", rf.file_stem().unwrap().to_string_lossy()));
        let child = std::process::Command::new(exe())
            .arg("--replay-worker")
            .arg(rf)
            .arg("--out")
            .arg(&outp)
            .arg("--seed")
            .arg(args.seed.to_string())
            .env("VERIF_CACHE", reg_cache_of(rf))
            .stdout(std::process::Stdio::null())
            .stderr(std::process::Stdio::null())
            .spawn()
            .ok();
        reg_children.push(child);
    }
    for (ri, rf) in reg_files.iter().enumerate() {
        let outp = run_dir.join(format!("reg-{}.out", rf.file_stem().unwrap().to_string_lossy()));
        let status: Result<std::process::ExitStatus, ()> = match reg_children[ri].take() {
            Some(mut c) => c.wait().map_err(|_| ()),
            None => Err(()),
        };
        let v: Value = std::fs::read_to_string(&outp)
            .ok()
            .and_then(|s| serde_json::from_str(&s).ok())
            .unwrap_or(Value::Null);
        let meta: Value = std::fs::read_to_string(rf)
            .ok()
            .and_then(|s| serde_json::from_str(&s).ok())
            .unwrap_or(Value::Null);
        let expect = meta["expect"].as_str().unwrap_or("pass").to_string();
        let failure: Option<Failure> = serde_json::from_value(v["failure"].clone()).ok();
        let name = rf.file_name().unwrap().to_string_lossy().to_string();
        if status.is_err() || v.is_null() || v["inconclusive"].is_string() {
            inconclusive.push(format!("regression {name}: {}", v["inconclusive"].as_str().unwrap_or("worker died")));
            continue;
        }
        match (&failure, expect.as_str()) {
            (None, "pass") => regression_report.push(json!({"file":name,"result":"pass"})),
            (None, exp) => {
                // a listed finding that no longer fails: stale entry, not an alarm
                println!("NOTE: property={prop} regression {name} expected {exp} but passes (finding no longer reproduces)");
                regression_report.push(json!({"file":name,"result":"pass-but-expected-known","expect":exp}));
            }
            (Some(f), exp) => {
                let k = match_open(&findings, f);
                match k {
                    Some(k) if exp == format!("known:{}", k.id) => {
                        println!("KNOWN-FINDING: property={} {} [{}]", prop, k.what_fails, k.id);
                        *known_hits.entry(k.id.clone()).or_insert(0) += 1;
                        regression_report.push(json!({"file":name,"result":"known","finding":k.id}));
                    }
                    _ => {
                        if f.property == prop {
                            violations.push((f.clone(), rf.clone()));
                        } else {
                            println!("NOTE: regression {name} fails a clause of {} (not {prop}): {}", f.property, f.clause);
                        }
                        regression_report.push(json!({"file":name,"result":"fail","clause":f.clause}));
                    }
                }
            }
        }
    }

    // ---- 2. generated search
    for (ji, job) in args.jobs.iter().enumerate() {
        let nw = job.workers.min(ncores()).max(1).min(job.cases.max(1) as usize);
        let per = (job.cases as usize + nw - 1) / nw;
        let mut children = vec![];
        for w in 0..nw {
            let params = Params {
                property: prop.clone(),
                check: job.check.to_string(),
                tier: args.tier,
                seed: args.seed,
                widx: w,
                nworkers: nw,
                cases: per as u32,
                open_findings: open.clone(),
                flavour: job.flavour.to_string(),
                strict: false,
            };
            let outp = run_dir.join(format!("job{ji}-w{w}.out"));
            let pfile = run_dir.join(format!("job{ji}-w{w}.params.json"));
            std::fs::write(&pfile, serde_json::to_string(&params).unwrap()).unwrap();
            let cache = job.caches[w % job.caches.len()];
            let child = std::process::Command::new(exe())
                .arg("--worker")
                .arg(&pfile)
                .arg("--out")
                .arg(&outp)
                .arg("--case-timeout")
                .arg(job.case_timeout_s.to_string())
                .arg("--shrink")
                .arg(job.max_shrink_iters.to_string())
                .env("VERIF_CACHE", cache)
                .stdout(std::process::Stdio::null())
                .stderr(std::fs::File::create(run_dir.join(format!("job{ji}-w{w}.err"))).map(std::process::Stdio::from).unwrap_or(std::process::Stdio::null()))
                .spawn()
                .expect("spawn worker");
            children.push((w, cache, child, outp));
        }
        let mut agg = JobAgg::default();
        for (w, cache, mut child, outp) in children {
            let status = child.wait().ok();
            let code = status.and_then(|s| s.code());
            let text = std::fs::read_to_string(&outp).unwrap_or_default();
            let mut done = false;
            for line in text.lines() {
                let v: Value = match serde_json::from_str(line) {
                    Ok(v) => v,
                    Err(_) => continue,
                };
                match v["t"].as_str() {
                    Some("case") => {
                        agg.evaluations += 1;
                        let h = format!("{}:{}", job.check, v["h"].as_str().unwrap_or(""));
                        if v["nt"].as_bool().unwrap_or(false) {
                            agg.nontrivial_hashes.insert(h.clone());
                        }
                        agg.all_hashes.insert(h);
                        agg.steps += v["steps"].as_u64().unwrap_or(0);
                        if let Some(ls) = v["labels"].as_array() {
                            for l in ls {
                                *agg.labels.entry(l.as_str().unwrap_or("").to_string()).or_insert(0) += 1;
                            }
                        }
                        if let Some(m) = v["excluded"].as_object() {
                            for (k, n) in m {
                                *agg.excluded.entry(k.clone()).or_insert(0) += n.as_u64().unwrap_or(0);
                            }
                        }
                        if let Some(m) = v["counters"].as_object() {
                            for (k, n) in m {
                                *agg.counters.entry(k.clone()).or_insert(0) += n.as_u64().unwrap_or(0);
                            }
                        }
                    }
                    Some("fail") => {
                        let mut v = v.clone();
                        v["cache"] = json!(cache);
                        v["check"] = json!(job.check);
                        v["flavour"] = json!(job.flavour);
                        agg.fails.push(v);
                    }
                    Some("abort") => agg.inconclusive.push(format!("worker {w} of {}: proptest abort: {}", job.check, v["why"])),
                    Some("inconclusive") => agg.inconclusive.push(format!("worker {w} of {}: {}", job.check, v["why"])),
                    Some("done") => {
                        done = true;
                        if agg.rule.is_empty() {
                            agg.rule = v["rule"].as_str().unwrap_or("").to_string();
                            agg.assumptions = v["assumptions"].as_array().map(|a| a.iter().filter_map(|x| x.as_str().map(String::from)).collect()).unwrap_or_default();
                            agg.floors = v["floors"].as_array().map(|a| a.iter().filter_map(|x| Some((x[0].as_str()?.to_string(), x[1].as_f64()?))).collect()).unwrap_or_default();
                        }
                        if let Some(ss) = v["samples"].as_array() {
                            for s in ss {
                                if agg.samples.len() < 4 {
                                    agg.samples.push(json!({"check":job.check,"cache":cache,"case":clip(s)}));
                                }
                            }
                        }
                    }
                    _ => {}
                }
            }
            if !done {
                let hang = std::fs::read_to_string(format!("{}.hang", outp.display())).unwrap_or_default();
                if !hang.is_empty() {
                    let hv: Value = serde_json::from_str(hang.lines().next().unwrap_or("null")).unwrap_or(Value::Null);
                    let rp = save_replay(&prop, job, cache, &serde_json::from_str(hv["case_json"].as_str().unwrap_or("null")).unwrap_or(Value::Null), None, "hang");
                    agg.inconclusive.push(format!("worker {w} of {} hit the per-case watchdog ({}s); case saved to {}", job.check, job.case_timeout_s, rp.display()));
                } else {
                    let errtxt = std::fs::read_to_string(run_dir.join(format!("job{ji}-w{w}.err"))).unwrap_or_default();
                    let tail: String = errtxt.lines().rev().take(5).collect::<Vec<_>>().join(" | ");
                    agg.inconclusive.push(format!("worker {w} of {} ended abnormally (exit {:?}): {}", job.check, code, tail));
                }
            }
        }
        // classify failures of this job
        for fv in &agg.fails {
            let failure: Failure = match serde_json::from_value(fv["failure"].clone()) {
                Ok(f) => f,
                Err(_) => continue,
            };
            let rp = save_replay(&prop, job, fv["cache"].as_str().unwrap_or("off"), &fv["case"], Some(&failure), "fail");
            if !fv["reproducible"].as_bool().unwrap_or(true) {
                agg.inconclusive.push(format!("{}: a failure ({}) did not reproduce on re-execution of the shrunk case; saved to {}", job.check, failure.clause, rp.display()));
                continue;
            }
            if failure.property != prop {
                println!("NOTE: {} found a failing clause of {} while running for {prop}: {} (replay {})", job.check, failure.property, failure.clause, rp.display());
                continue;
            }
            match match_open(&findings, &failure) {
                Some(k) => {
                    // an open finding that slipped past its exclusion: still only a known finding
                    *known_hits.entry(k.id.clone()).or_insert(0) += 1;
                    println!("KNOWN-FINDING: property={} {} [{}] (rediscovered by search; replay {})", prop, k.what_fails, k.id, rp.display());
                }
                None => violations.push((failure, rp)),
            }
        }
        // generator self-check (label floors) - reported, never a violation
        let mut floor_notes = vec![];
        for (l, f) in &agg.floors {
            let have = *agg.labels.get(l).unwrap_or(&0) as f64 * 100.0 / (agg.evaluations.max(1) as f64);
            if have < *f && agg.fails.is_empty() {
                floor_notes.push(format!("label '{l}' at {have:.1}% < floor {f}%"));
            }
        }
        per_check.insert(
            format!("{}{}{}", job.check, if job.flavour.is_empty() { "" } else { ":" }, job.flavour),
            json!({
                "evaluations": agg.evaluations,
                "distinct": agg.all_hashes.len(),
                "distinct_nontrivial": agg.nontrivial_hashes.len(),
                "steps": agg.steps,
                "labels": agg.labels,
                "counters": agg.counters,
                "excluded_by_known_finding": agg.excluded,
                "rule": agg.rule,
                "workers": nw,
                "caches": job.caches,
                "generator_floor_notes": floor_notes,
            }),
        );
        total.evaluations += agg.evaluations;
        total.steps += agg.steps;
        total.nontrivial_hashes.extend(agg.nontrivial_hashes);
        total.all_hashes.extend(agg.all_hashes);
        for (k, v) in agg.labels {
            *total.labels.entry(k).or_insert(0) += v;
        }
        for (k, v) in agg.excluded {
            *total.excluded.entry(k).or_insert(0) += v;
        }
        for (k, v) in agg.counters {
            *total.counters.entry(k).or_insert(0) += v;
        }
        for s in agg.samples {
            if total.samples.len() < 6 {
                total.samples.push(s);
            }
        }
        if !agg.rule.is_empty() {
            if !total.rule.is_empty() {
                total.rule.push_str(" || ");
            }
            total.rule.push_str(&format!("[{}] {}", job.check, agg.rule));
        }
        for a in agg.assumptions {
            if !total.assumptions.contains(&a) {
                total.assumptions.push(a);
            }
        }
        inconclusive.extend(agg.inconclusive);
    }

    // ---- 3. verdict + evidence
    let mut exit = 0;
    for (f, rp) in &violations {
        println!("VIOLATION property={} replay={}", prop, rp.display());
        println!("  clause={} tags={:?}", f.clause, f.tags);
        println!("  {}", f.detail.chars().take(1500).collect::<String>());
        exit = 1;
    }
    if exit == 0 && !inconclusive.is_empty() {
        exit = 2;
    }
    for i in &inconclusive {
        println!("INCONCLUSIVE: {i}");
    }
    if total.samples.is_empty() {
        total.samples.push(json!("no non-trivial passing case was sampled in this run"));
    }
    let evidence = json!({
        "property_id": prop,
        "tier": args.tier.as_str(),
        "seed": args.seed as i64,
        "level": args.level,
        "coverage": {
            "evaluations": total.evaluations,
            "distinct_nontrivial": total.nontrivial_hashes.len(),
            "distinct_cases": total.all_hashes.len(),
            "rule": total.rule,
            "samples": total.samples,
            "steps": total.steps,
            "labels": total.labels,
            "counters": total.counters,
            "excluded_by_known_finding": total.excluded,
            "known_finding_hits": known_hits,
            "per_check": per_check,
            "regressions_replayed": regression_report,
            "inconclusive": inconclusive,
        },
        "assumptions": total.assumptions,
        "wall_s": t0.elapsed().as_secs_f64(),
        "violations": violations.len(),
    });
    let ev_dir = Path::new(VERIF_ROOT).join("evidence");
    let _ = std::fs::create_dir_all(&ev_dir);
    std::fs::write(
        ev_dir.join(format!("{prop}.json")),
        serde_json::to_string_pretty(&evidence).unwrap(),
    )
    .expect("write evidence");
    let _ = std::fs::remove_dir_all(&run_dir);
    println!(
        "{prop} {}: {} cases ({} distinct non-trivial), {} steps, {} violation(s), {} known-finding hit(s), {:.1}s",
        args.tier.as_str(),
        total.evaluations,
        total.nontrivial_hashes.len(),
        total.steps,
        violations.len(),
        known_hits.values().sum::<u64>(),
        t0.elapsed().as_secs_f64()
    );
    exit
}

fn clip(v: &Value) -> Value {
    let s = serde_json::to_string(v).unwrap_or_default();
    if s.len() <= 6000 {
        v.clone()
    } else {
        json!({"truncated_json": s.chars().take(6000).collect::<String>(), "full_len": s.len()})
    }
}

fn reg_cache_of(path: &Path) -> String {
    std::fs::read_to_string(path)
        .ok()
        .and_then(|s| serde_json::from_str::<Value>(&s).ok())
        .and_then(|v| v["cache"].as_str().map(String::from))
        .unwrap_or_else(|| "off".to_string())
}

pub fn save_replay(prop: &str, job: &Job, cache: &str, case: &Value, failure: Option<&Failure>, kind: &str) -> PathBuf {
    let dir = Path::new(VERIF_ROOT).join("replays").join(prop);
    let _ = std::fs::create_dir_all(&dir);
    let body = json!({
        "property": prop,
        "check": job.check,
        "flavour": job.flavour,
        "cache": cache,
        "kind": kind,
        "expect": "pass",
        "failure_when_saved": failure,
        "case": case,
    });
    let h = fnv64(serde_json::to_string(&body["case"]).unwrap_or_default().as_bytes());
    let path = dir.join(format!("{}-{:016x}.json", job.check, h));
    let _ = std::fs::write(&path, serde_json::to_string_pretty(&body).unwrap());
    path
}

#[derive(Debug, Deserialize)]
pub struct ReplayFile {
    pub property: String,
    pub check: String,
    #[serde(default)]
    pub flavour: String,
    #[serde(default)]
    pub cache: Option<String>,
    pub case: Value,
}
