//! Shared plumbing: failures, outcomes, panic capture, hashing, small utilities.

use serde::{Deserialize, Serialize};
use std::collections::BTreeMap;
use std::path::{Path, PathBuf};
use std::sync::Mutex;

/// An oracle failure. `property` names the listed property whose clause failed,
/// `clause` is a stable short identifier of the oracle clause (used by known-finding
/// signatures), `detail` is free text (observed vs expected).
#[derive(Debug, Clone, Serialize, Deserialize)]
pub struct Failure {
    pub property: String,
    pub clause: String,
    pub detail: String,
    /// trigger tags computed by the interpreter from the *model* state at the failing step
    #[serde(default)]
    pub tags: Vec<String>,
}

impl Failure {
    pub fn new(property: &str, clause: &str, detail: impl Into<String>) -> Failure {
        Failure {
            property: property.to_string(),
            clause: clause.to_string(),
            detail: detail.into(),
            tags: vec![],
        }
    }
    pub fn tag(mut self, t: impl Into<String>) -> Failure {
        self.tags.push(t.into());
        self
    }
}

pub type Check = Result<(), Failure>;

/// What one executed case reports back (besides pass/fail).
#[derive(Debug, Default, Clone)]
pub struct Outcome {
    pub labels: Vec<&'static str>,
    pub nontrivial: bool,
    pub steps: u64,
    /// counts of comparisons skipped / steps steered because of an open known finding
    pub excluded: BTreeMap<String, u64>,
    /// extra numeric counters (engine specific), summed by the coordinator
    pub counters: BTreeMap<String, u64>,
    pub failure: Option<Failure>,
    /// an inconclusive case (watchdog, environment trouble): never a violation
    pub inconclusive: Option<String>,
}

impl Outcome {
    pub fn label(&mut self, l: &'static str) {
        if !self.labels.contains(&l) {
            self.labels.push(l);
        }
    }
    pub fn exclude(&mut self, finding: &str) {
        *self.excluded.entry(finding.to_string()).or_insert(0) += 1;
    }
    pub fn count(&mut self, k: &str, n: u64) {
        *self.counters.entry(k.to_string()).or_insert(0) += n;
    }
}

// ---------------------------------------------------------------- panic capture

#[derive(Debug, Clone, Serialize, Deserialize)]
pub struct PanicRecord {
    pub message: String,
    pub location: String,
    pub thread: String,
    /// innermost frame of server / sdk code on the panicking stack ("" if none)
    #[serde(default)]
    pub repo_frame: String,
}

static PANICS: Mutex<Vec<PanicRecord>> = Mutex::new(Vec::new());

pub fn install_panic_hook() {
    std::panic::set_hook(Box::new(|info| {
        let message = if let Some(s) = info.payload().downcast_ref::<&str>() {
            s.to_string()
        } else if let Some(s) = info.payload().downcast_ref::<String>() {
            s.clone()
        } else {
            "<non-string panic>".to_string()
        };
        let location = info
            .location()
            .map(|l| format!("{}:{}", l.file(), l.line()))
            .unwrap_or_default();
        let thread = std::thread::current().name().unwrap_or("?").to_string();
        let mut repo_frame = String::new();
        if !location.contains("/repo/") {
            // a panic raised inside a dependency (e.g. `bytes` underflow): attribute it by the stack
            let bt = std::backtrace::Backtrace::force_capture().to_string();
            for line in bt.lines() {
                let l = line.trim();
                if let Some(pos) = l.find(": ") {
                    let f = &l[pos + 2..];
                    if f.starts_with("iggy::") || f.starts_with("server::") || f.starts_with("<iggy::") || f.starts_with("<server::") {
                        repo_frame = f.chars().take(160).collect();
                        break;
                    }
                }
            }
        }
        if let Ok(mut p) = PANICS.lock() {
            p.push(PanicRecord {
                message,
                location,
                thread,
                repo_frame,
            });
        }
    }));
}

/// number of panics recorded so far (a mark for `discard_panics_since`)
pub fn panic_mark() -> usize {
    PANICS.lock().map(|p| p.len()).unwrap_or(0)
}

/// Forget the panics recorded after `mark`. Used around the drop of an embedded server's runtime, which
/// stands for the death of the server process: a task that panics while its runtime is being torn down
/// (e.g. a file write whose blocking pool is gone) has no counterpart in a process that simply exits.
pub fn discard_panics_since(mark: usize) -> usize {
    PANICS.lock().map(|mut p| {
        let n = p.len().saturating_sub(mark);
        let keep = mark.min(p.len());
        p.truncate(keep);
        n
    }).unwrap_or(0)
}

pub fn take_panics() -> Vec<PanicRecord> {
    PANICS.lock().map(|mut p| std::mem::take(&mut *p)).unwrap_or_default()
}

/// Panics raised by code under /repo (server or sdk), as opposed to the harness.
pub fn is_repo_panic(p: &PanicRecord) -> bool {
    // raised in server / sdk source, or raised (e.g. inside a dependency such as `bytes`)
    // on one of the embedded server's runtime threads
    p.location.starts_with("/repo/") || p.location.contains("/repo/") || p.thread.starts_with("node-rt") || !p.repo_frame.is_empty()
}

// ---------------------------------------------------------------- hashing, crc

pub fn fnv64(bytes: &[u8]) -> u64 {
    let mut h: u64 = 0xcbf29ce484222325;
    for b in bytes {
        h ^= *b as u64;
        h = h.wrapping_mul(0x100000001b3);
    }
    h
}

pub fn hash_json<T: Serialize>(v: &T) -> u64 {
    fnv64(serde_json::to_string(v).unwrap_or_default().as_bytes())
}

/// Independent CRC-32 (IEEE 802.3, reflected, as used by zlib) - bitwise, no table,
/// deliberately not the crate the server uses.
pub fn crc32_ieee(data: &[u8]) -> u32 {
    let mut crc: u32 = 0xFFFF_FFFF;
    for &b in data {
        crc ^= b as u32;
        for _ in 0..8 {
            let mask = (!(crc & 1)).wrapping_add(1);
            crc = (crc >> 1) ^ (0xEDB8_8320 & mask);
        }
    }
    !crc
}

/// splitmix64, for deriving seeds (not used inside properties for random choices).
pub fn mix64(mut x: u64) -> u64 {
    x = x.wrapping_add(0x9E3779B97F4A7C15);
    let mut z = x;
    z = (z ^ (z >> 30)).wrapping_mul(0xBF58476D1CE4E5B9);
    z = (z ^ (z >> 27)).wrapping_mul(0x94D049BB133111EB);
    z ^ (z >> 31)
}

pub fn seed_bytes(seed: u64) -> [u8; 32] {
    let mut out = [0u8; 32];
    let mut s = seed;
    for i in 0..4 {
        s = mix64(s);
        out[i * 8..i * 8 + 8].copy_from_slice(&s.to_le_bytes());
    }
    out
}

/// Monotone index mapping (shrinks well): u16 selector -> 0..len
pub fn pick(sel: u16, len: usize) -> usize {
    if len == 0 {
        return 0;
    }
    ((sel as usize) * len) >> 16
}

// ---------------------------------------------------------------- scratch dirs

pub fn scratch_root() -> PathBuf {
    let base = std::env::var("VERIF_SCRATCH").unwrap_or_else(|_| "/dev/shm".to_string());
    PathBuf::from(base).join(format!("iggy-verif-{}", std::process::id()))
}

pub struct ScratchDir {
    pub path: PathBuf,
}

impl ScratchDir {
    pub fn new(tag: &str) -> ScratchDir {
        use std::sync::atomic::{AtomicU64, Ordering};
        static N: AtomicU64 = AtomicU64::new(0);
        let n = N.fetch_add(1, Ordering::SeqCst);
        let path = scratch_root().join(format!("{tag}-{n}"));
        let _ = std::fs::remove_dir_all(&path);
        std::fs::create_dir_all(&path).expect("create scratch dir");
        ScratchDir { path }
    }
    pub fn path_str(&self) -> String {
        self.path.to_string_lossy().to_string()
    }
}

impl Drop for ScratchDir {
    fn drop(&mut self) {
        let _ = std::fs::remove_dir_all(&self.path);
    }
}

pub fn copy_dir(src: &Path, dst: &Path) -> std::io::Result<()> {
    std::fs::create_dir_all(dst)?;
    for e in std::fs::read_dir(src)? {
        let e = e?;
        let ft = e.file_type()?;
        let to = dst.join(e.file_name());
        if ft.is_dir() {
            copy_dir(&e.path(), &to)?;
        } else if ft.is_file() {
            std::fs::copy(e.path(), &to)?;
        }
    }
    Ok(())
}

pub fn list_files(root: &Path) -> Vec<PathBuf> {
    let mut out = vec![];
    let mut stack = vec![root.to_path_buf()];
    while let Some(d) = stack.pop() {
        if let Ok(rd) = std::fs::read_dir(&d) {
            for e in rd.flatten() {
                let p = e.path();
                if p.is_dir() {
                    stack.push(p);
                } else {
                    out.push(p);
                }
            }
        }
    }
    out.sort();
    out
}

pub fn find_bytes(hay: &[u8], needle: &[u8]) -> Option<usize> {
    if needle.is_empty() || hay.len() < needle.len() {
        return None;
    }
    let first = needle[0];
    let mut i = 0;
    let last = hay.len() - needle.len();
    while i <= last {
        match hay[i..=last].iter().position(|&b| b == first) {
            None => return None,
            Some(p) => {
                let at = i + p;
                if &hay[at..at + needle.len()] == needle {
                    return Some(at);
                }
                i = at + 1;
            }
        }
    }
    None
}

pub fn hex(bytes: &[u8]) -> String {
    let mut s = String::with_capacity(bytes.len() * 2);
    for b in bytes {
        s.push_str(&format!("{:02x}", b));
    }
    s
}

pub fn short(bytes: &[u8]) -> String {
    if bytes.len() <= 12 {
        hex(bytes)
    } else {
        format!("{}..({}B)", hex(&bytes[..8]), bytes.len())
    }
}
