//! `conc` engine (C12): concurrent producers, pollers, flush / background-save actors on one
//! partition over real TCP connections, seeded schedule points (H5) armed in the writer, the
//! persister task and the segment-close path; oracle = invariant over the recorded history.

use crate::common::*;
use crate::node::{Node, NodeCfg};
use crate::runner::{Engine, Params, Tier};
use bytes::Bytes;
use iggy::client::{Client, MessageClient, StreamClient, TopicClient};
use iggy::compression::compression_algorithm::CompressionAlgorithm;
use iggy::consumer::Consumer;
use iggy::error::IggyError;
use iggy::identifier::Identifier;
use iggy::messages::poll_messages::PollingStrategy;
use iggy::messages::send_messages::{Message, Partitioning};
use iggy::utils::expiry::IggyExpiry;
use iggy::utils::topic_size::MaxTopicSize;
use proptest::prelude::*;
use proptest::strategy::BoxedStrategy;
use serde::{Deserialize, Serialize};
use std::sync::Arc;
use std::time::Instant;

pub struct Conc;

#[derive(Debug, Clone, PartialEq, Serialize, Deserialize)]
pub struct KCase {
    pub cfg: NodeCfg,
    /// batch sizes per producer
    pub producers: Vec<Vec<u8>>,
    /// (kind 0 offset-frac / 1 last / 2 first, count, frac) per poller, each poller loops over its list
    pub pollers: Vec<Vec<(u8, u8, u16)>>,
    pub flushers: u8,
    pub savers: u8,
    pub seed: u64,
    pub payload_len: u16,
    /// (schedule point, delay ms): fixed delays instead of the seeded ones; hand-written regression files only
    #[serde(default)]
    pub chaos: Vec<(String, u64)>,
    /// pollers keep polling this long after the producers finished (regression files only)
    #[serde(default)]
    pub linger_ms: u64,
}

fn sid() -> Identifier {
    Identifier::numeric(3).unwrap()
}
fn tid() -> Identifier {
    Identifier::numeric(2).unwrap()
}

fn tag(producer: u8, batch: u16, idx: u16, len: usize) -> Vec<u8> {
    let mut v = vec![0xC1, producer, (batch >> 8) as u8, batch as u8, (idx >> 8) as u8, idx as u8];
    while v.len() < len.max(6) {
        v.push((v.len() as u8).wrapping_mul(31) ^ producer ^ batch as u8);
    }
    v
}
fn untag(p: &[u8]) -> Option<(u8, u16, u16)> {
    if p.len() < 6 || p[0] != 0xC1 {
        return None;
    }
    Some((p[1], ((p[2] as u16) << 8) | p[3] as u16, ((p[4] as u16) << 8) | p[5] as u16))
}

#[derive(Debug)]
struct SendRec {
    producer: u8,
    batch: u16,
    n: u16,
    acked_at: Instant,
    ok: bool,
}
#[derive(Debug)]
struct PollRec {
    started: Instant,
    kind: u8,
    offset: u64,
    count: u32,
    offsets: Vec<u64>,
    payloads: Vec<Vec<u8>>,
    err: Option<String>,
}

impl Engine for Conc {
    type Case = KCase;
    fn strategy(&self, p: &Params) -> BoxedStrategy<KCase> {
        let thorough = p.tier == Tier::Thorough;
        let maxb = if thorough { 30 } else { 14 };
        (
            (prop_oneof![Just(1u32), Just(2), Just(5), Just(1000)], prop_oneof![Just(400u64), Just(2_000), Just(1_000_000)], any::<bool>(), prop_oneof![4 => Just(false), 1 => Just(true)], prop_oneof![3 => Just(false), 1 => Just(true)]),
            proptest::collection::vec(proptest::collection::vec(1u8..6, 1..=maxb), 1..=5),
            proptest::collection::vec(proptest::collection::vec((0u8..3, 1u8..20, any::<u16>()), 1..8), 0..=4),
            0u8..2,
            0u8..2,
            any::<u64>(),
            prop_oneof![Just(8u16), Just(60), Just(400)],
        )
            .prop_map(|((thr, seg, ci, fsync, no_wait), producers, pollers, flushers, savers, seed, payload_len)| KCase {
                cfg: NodeCfg { save_threshold: thr, segment_size: seg, cache_indexes: ci, fsync, no_wait, rt_workers: 4, ..NodeCfg::default() },
                producers,
                pollers,
                flushers,
                savers,
                seed,
                payload_len,
                chaos: vec![],
                linger_ms: 0,
            })
            .boxed()
    }

    fn run(&self, case: &KCase, p: &Params) -> Outcome {
        let mut out = Outcome::default();
        let _ = take_panics();
        let dir = ScratchDir::new("conc");
        let r = run_case(case, p, &dir, &mut out);
        server::verif::disarm_all();
        let ps: Vec<_> = take_panics().into_iter().filter(is_repo_panic).collect();
        match r {
            Err(f) => out.failure = Some(f),
            Ok(()) => {
                if let Some(p) = ps.first() {
                    out.failure = Some(Failure::new("C12", "server-panic", format!("{} at {}", p.message, p.location)));
                }
            }
        }
        out
    }
    fn rule(&self, _p: &Params) -> String {
        "case = generated storage config (threshold, segment size 400 B..1 MB so that roll-overs happen, index cache, fsync, wait/no-wait; message cache off/big/tiny per worker) + 1..5 producers (own TCP connection each, generated lists of uniquely tagged batches) + 0..4 pollers (offset / last / first polls in a loop) + optional flush and background-save actors, all running concurrently on a 4-thread server runtime with seeded schedule points armed in the log writer (before / after write), the persister task, persist_messages and the segment-close task; oracle over the recorded history: the final log is gap-free and an interleaving of the acknowledged batches with every batch contiguous and every producer's batches in order; every poll result is a contiguous run whose messages equal the final log at their offsets; under wait confirmation a poll that started after a send's acknowledgement and covers its offsets contains them; non-trivial = >=2 producers and >=1 poll issued while sends were in flight".into()
    }
    fn assumptions(&self, _p: &Params) -> Vec<String> {
        vec![
            "schedules are sampled (OS scheduling + seeded yields/sleeps at hook points), not enumerated; failures are replayed up to 5 times".into(),
            "under no-wait confirmation 'acknowledged => visible' is not demanded (only final content, order, contiguity)".into(),
        ]
    }
}

fn run_case(case: &KCase, p: &Params, dir: &ScratchDir, out: &mut Outcome) -> Check {
    let fail = |c: &str, d: String| {
        let mut f = Failure::new("C12", c, d);
        if case.cfg.no_wait {
            f = f.tag("cfg:no-wait");
        }
        f.tag(format!("cache:{}", crate::node::CacheMode::from_env().as_str()))
    };
    let node = Arc::new(Node::start(&case.cfg, &dir.path).map_err(|e| fail("start-failed", format!("{e:?}")))?);
    let admin = node.tcp_root().map_err(|e| fail("cannot-connect", e.to_string()))?;
    node.block_on(async {
        admin.create_stream("s", Some(3)).await?;
        admin.create_topic(&sid(), "t", 1, CompressionAlgorithm::None, None, Some(2), IggyExpiry::NeverExpire, MaxTopicSize::Unlimited).await?;
        Ok::<(), IggyError>(())
    })
    .map_err(|e| fail("setup", e.to_string()))?;
    for (name, ms) in &case.chaos {
        server::verif::arm_chaos(name, server::verif::ChaosAction::DelayMs(*ms), 1);
    }
    for pt in if case.chaos.is_empty() { &["log_writer.before_write", "log_writer.after_write", "persister_task.before_write", "segment.persist_messages", "segment.close_log_writer"][..] } else { &[][..] } {
        server::verif::arm_chaos(pt, server::verif::ChaosAction::Seeded { max_us: 400 }, case.seed);
    }
    let done = Arc::new(std::sync::atomic::AtomicBool::new(false));
    let mut prod_handles = vec![];
    let plen = case.payload_len as usize;
    for (pi, batches) in case.producers.iter().enumerate() {
        let cl = node.tcp_root().map_err(|e| fail("cannot-connect", e.to_string()))?;
        let batches = batches.clone();
        prod_handles.push(node.rt.spawn(async move {
            let mut recs = vec![];
            for (bi, n) in batches.iter().enumerate() {
                let mut ms: Vec<Message> = (0..*n).map(|k| Message::new(None, Bytes::from(tag(pi as u8, bi as u16, k as u16, plen)), None)).collect();
                let r = cl.send_messages(&sid(), &tid(), &Partitioning::partition_id(1), &mut ms).await;
                recs.push(SendRec { producer: pi as u8, batch: bi as u16, n: *n as u16, acked_at: Instant::now(), ok: r.is_ok() });
                if (bi + pi) % 3 == 0 {
                    tokio::task::yield_now().await;
                }
            }
            let _ = cl.shutdown().await;
            recs
        }));
    }
    let mut poll_handles = vec![];
    for (_qi, plan) in case.pollers.iter().enumerate() {
        let cl = node.tcp_root().map_err(|e| fail("cannot-connect", e.to_string()))?;
        let plan = plan.clone();
        let done = done.clone();
        let linger = case.linger_ms;
        poll_handles.push(node.rt.spawn(async move {
            let mut finished_at: Option<Instant> = None;
            let mut recs: Vec<PollRec> = vec![];
            let mut round = 0usize;
            let mut hi_seen = 0u64;
            while recs.len() < 4000 {
                let finished = done.load(std::sync::atomic::Ordering::SeqCst);
                let (kind, count, frac) = plan[round % plan.len()];
                round += 1;
                let count = count.max(1) as u32;
                let (strat, offset) = match kind {
                    0 => {
                        let o = ((frac as u64) * (hi_seen + 2)) >> 16;
                        (PollingStrategy::offset(o), o)
                    }
                    1 => (PollingStrategy::last(), 0),
                    _ => (PollingStrategy::first(), 0),
                };
                let started = Instant::now();
                let r = cl.poll_messages(&sid(), &tid(), Some(1), &Consumer::new(Identifier::numeric(1).unwrap()), &strat, count, false).await;
                match r {
                    Ok(pm) => {
                        if let Some(l) = pm.messages.last() {
                            hi_seen = hi_seen.max(l.offset);
                        }
                        recs.push(PollRec { started, kind, offset, count, offsets: pm.messages.iter().map(|m| m.offset).collect(), payloads: pm.messages.iter().map(|m| m.payload.to_vec()).collect(), err: None });
                    }
                    Err(e) => recs.push(PollRec { started, kind, offset, count, offsets: vec![], payloads: vec![], err: Some(e.to_string()) }),
                }
                if finished {
                    let t = *finished_at.get_or_insert_with(Instant::now);
                    if t.elapsed() >= std::time::Duration::from_millis(linger) {
                        break;
                    }
                }
                tokio::task::yield_now().await;
            }
            let _ = cl.shutdown().await;
            recs
        }));
    }
    let mut aux = vec![];
    for _ in 0..case.flushers {
        let cl = node.tcp_root().map_err(|e| fail("cannot-connect", e.to_string()))?;
        let done = done.clone();
        aux.push(node.rt.spawn(async move {
            while !done.load(std::sync::atomic::Ordering::SeqCst) {
                let _ = cl.flush_unsaved_buffer(&sid(), &tid(), 1, false).await;
                tokio::time::sleep(std::time::Duration::from_micros(300)).await;
            }
            let _ = cl.shutdown().await;
        }));
    }
    for _ in 0..case.savers {
        let sys = node.system.clone();
        let done = done.clone();
        aux.push(node.rt.spawn(async move {
            while !done.load(std::sync::atomic::Ordering::SeqCst) {
                let _ = sys.read().await.persist_messages().await;
                tokio::time::sleep(std::time::Duration::from_micros(500)).await;
            }
        }));
    }
    let mut sends: Vec<SendRec> = vec![];
    for h in prod_handles {
        match node.block_on(h) {
            Ok(r) => sends.extend(r),
            Err(e) => return Err(fail("producer-task-died", e.to_string())),
        }
    }
    let sends_done = Instant::now();
    done.store(true, std::sync::atomic::Ordering::SeqCst);
    let mut polls: Vec<PollRec> = vec![];
    for h in poll_handles {
        match node.block_on(h) {
            Ok(r) => polls.extend(r),
            Err(e) => return Err(fail("poller-task-died", e.to_string())),
        }
    }
    for h in aux {
        let _ = node.block_on(h);
    }
    let hits = server::verif::chaos_hits();
    server::verif::disarm_all();
    out.count("schedule_point_hits", hits);
    out.count("polls", polls.len() as u64);
    out.steps += sends.len() as u64 + polls.len() as u64;
    if let Some(s) = sends.iter().find(|s| !s.ok) {
        return Err(fail("valid-send-refused", format!("producer {} batch {} was refused", s.producer, s.batch)));
    }
    // quiesce, then the final full read
    let _ = node.block_on(async { admin.flush_unsaved_buffer(&sid(), &tid(), 1, false).await });
    let total: u64 = sends.iter().map(|s| s.n as u64).sum();
    let mut fin: Vec<Vec<u8>> = vec![];
    let deadline = Instant::now() + std::time::Duration::from_secs(5);
    loop {
        fin.clear();
        let mut at = 0u64;
        let mut hole: Option<String> = None;
        'read: loop {
            let pm = node
                .block_on(async { admin.poll_messages(&sid(), &tid(), Some(1), &Consumer::new(Identifier::numeric(9).unwrap()), &PollingStrategy::offset(at), 500, false).await })
                .map_err(|e| fail("final-read-fails", e.to_string()))?;
            if pm.messages.is_empty() {
                break;
            }
            for m in &pm.messages {
                if m.offset != at {
                    hole = Some(format!("final read: offset {} where {at} expected", m.offset));
                    break 'read;
                }
                fin.push(m.payload.to_vec());
                at += 1;
            }
        }
        // under no-wait the background persister may still be writing: re-read until complete (8.1-10)
        let settled = hole.is_none() && fin.len() as u64 >= total;
        if settled || !case.cfg.no_wait || Instant::now() > deadline {
            if let Some(h) = hole {
                return Err(fail("final-log-has-gap-or-duplicate", h));
            }
            break;
        }
        node.settle(5);
    }
    if fin.len() as u64 != total {
        return Err(fail("final-log-count", format!("{} messages were acknowledged, the final log holds {}", total, fin.len())));
    }
    // interleaving of whole batches, per-producer order
    let mut next_batch: Vec<u16> = vec![0; case.producers.len()];
    let mut batch_start: std::collections::HashMap<(u8, u16), u64> = std::collections::HashMap::new();
    let mut i = 0usize;
    while i < fin.len() {
        let Some((p, b, k)) = untag(&fin[i]) else {
            return Err(fail("foreign-message", format!("offset {i} holds a message that nobody sent")));
        };
        if k != 0 || (p as usize) >= next_batch.len() || b != next_batch[p as usize] {
            return Err(fail("batch-order-or-contiguity", format!(
                "offset {i} holds message {k} of batch {b} of producer {p}; expected the start of that producer's batch {}", next_batch.get(p as usize).copied().unwrap_or(0))));
        }
        let n = case.producers[p as usize][b as usize] as usize;
        for j in 0..n {
            match fin.get(i + j).and_then(|x| untag(x)) {
                Some((pp, bb, kk)) if pp == p && bb == b && kk as usize == j => {}
                other => return Err(fail("batch-order-or-contiguity", format!("batch {b} of producer {p} (size {n}) starts at offset {i} but offset {} holds {:?}", i + j, other))),
            }
            if fin[i + j] != tag(p, b, j as u16, case.payload_len as usize) {
                return Err(fail("torn-message", format!("offset {} content differs from what producer {p} sent", i + j)));
            }
        }
        batch_start.insert((p, b), i as u64);
        next_batch[p as usize] += 1;
        i += n;
    }
    // polls
    let mut during = 0;
    for q in &polls {
        if let Some(e) = &q.err {
            return Err(fail("poll-error", format!("a poll failed during concurrent traffic: {e}")));
        }
        // KF-C12-1 (open): under no-wait a batch handed to the background persister is neither in the
        // buffer nor yet in the file; a poll spanning it returns the messages around it (a hole)
        let mask_hole = case.cfg.no_wait && p.masked("KF-C12-1");
        if mask_hole {
            out.exclude("KF-C12-1");
        }
        for w in q.offsets.windows(2) {
            if w[1] != w[0] + 1 && !mask_hole {
                return Err(fail("poll-not-contiguous", format!("poll kind {} returned offsets {:?}", q.kind, q.offsets)));
            }
        }
        for (o, p) in q.offsets.iter().zip(q.payloads.iter()) {
            if fin.get(*o as usize) != Some(p) {
                return Err(fail("poll-returned-message-not-in-log", format!("a poll returned at offset {o} a message that differs from the final log at that offset (torn / partial / foreign)")));
            }
        }
        if q.started < sends_done {
            during += 1;
        }
        if q.kind == 0 {
            if let Some(f) = q.offsets.first() {
                if *f != q.offset && !mask_hole {
                    return Err(fail("poll-wrong-start", format!("poll(offset {}) started at {}", q.offset, f)));
                }
            }
            if !case.cfg.no_wait {
                // everything acknowledged before the poll started and contiguous from q.offset must be there
                let mut hi = q.offset;
                'scan: loop {
                    // which batch owns offset hi?
                    let owner = batch_start.iter().find(|((p, b), s)| **s <= hi && hi < **s + case.producers[*p as usize][*b as usize] as u64);
                    match owner {
                        Some(((p, b), _)) => {
                            let rec = sends.iter().find(|s| s.producer == *p && s.batch == *b).unwrap();
                            if rec.acked_at < q.started {
                                hi += 1;
                                if hi >= q.offset + q.count as u64 {
                                    break 'scan;
                                }
                            } else {
                                break 'scan;
                            }
                        }
                        None => break 'scan,
                    }
                }
                let must = (hi - q.offset).min(q.count as u64) as usize;
                if q.offsets.len() < must {
                    return Err(fail("acknowledged-send-not-visible", format!(
                        "poll(offset {}, count {}) started after the sends covering offsets {}..{} were acknowledged (wait confirmation) but returned only {} messages", q.offset, q.count, q.offset, hi, q.offsets.len())));
                }
            }
        }
    }
    if case.producers.len() >= 2 && during >= 1 {
        out.nontrivial = true;
        out.label("polls-during-concurrent-sends");
    }
    let _ = node.block_on(async { admin.shutdown().await });
    match Arc::try_unwrap(node) {
        Ok(n) => n.kill(),
        Err(_) => {}
    }
    Ok(())
}
