//! Structure-aware generation of permission records (compact serialisable spec ->
//! iggy::models::permissions::Permissions).

use ahash::AHashMap;
use iggy::models::permissions::{GlobalPermissions, Permissions, StreamPermissions, TopicPermissions};
use proptest::prelude::*;
use serde::{Deserialize, Serialize};

#[derive(Debug, Clone, PartialEq, Serialize, Deserialize)]
pub struct TopicPermSpec {
    pub topic: u32,
    /// bits: manage_topic, read_topic, poll_messages, send_messages
    pub flags: u8,
}

#[derive(Debug, Clone, PartialEq, Serialize, Deserialize)]
pub struct StreamPermSpec {
    pub stream: u32,
    /// bits: manage_stream, read_stream, manage_topics, read_topics, poll_messages, send_messages
    pub flags: u8,
    /// None = no topic table, Some(vec) = table (possibly empty)
    pub topics: Option<Vec<TopicPermSpec>>,
}

#[derive(Debug, Clone, PartialEq, Serialize, Deserialize)]
pub struct PermSpec {
    /// bits 0..10: manage_servers, read_servers, manage_users, read_users, manage_streams,
    /// read_streams, manage_topics, read_topics, poll_messages, send_messages
    pub global: u16,
    pub streams: Option<Vec<StreamPermSpec>>,
}

pub fn global_of(bits: u16) -> GlobalPermissions {
    GlobalPermissions {
        manage_servers: bits & 1 != 0,
        read_servers: bits & 2 != 0,
        manage_users: bits & 4 != 0,
        read_users: bits & 8 != 0,
        manage_streams: bits & 16 != 0,
        read_streams: bits & 32 != 0,
        manage_topics: bits & 64 != 0,
        read_topics: bits & 128 != 0,
        poll_messages: bits & 256 != 0,
        send_messages: bits & 512 != 0,
    }
}

pub fn topic_of(flags: u8) -> TopicPermissions {
    TopicPermissions {
        manage_topic: flags & 1 != 0,
        read_topic: flags & 2 != 0,
        poll_messages: flags & 4 != 0,
        send_messages: flags & 8 != 0,
    }
}

pub fn stream_of(s: &StreamPermSpec) -> StreamPermissions {
    StreamPermissions {
        manage_stream: s.flags & 1 != 0,
        read_stream: s.flags & 2 != 0,
        manage_topics: s.flags & 4 != 0,
        read_topics: s.flags & 8 != 0,
        poll_messages: s.flags & 16 != 0,
        send_messages: s.flags & 32 != 0,
        topics: s.topics.as_ref().map(|ts| {
            let mut m = AHashMap::new();
            for t in ts {
                m.insert(t.topic, topic_of(t.flags));
            }
            m
        }),
    }
}

/// what the wire format can carry: an empty table is the same as an absent one
pub fn normalized(spec: &PermSpec) -> PermSpec {
    let mut s = spec.clone();
    if let Some(ss) = &mut s.streams {
        for st in ss.iter_mut() {
            if matches!(&st.topics, Some(t) if t.is_empty()) {
                st.topics = None;
            }
        }
        if ss.is_empty() {
            s.streams = None;
        }
    }
    s
}

pub fn build(spec: &PermSpec) -> Permissions {
    Permissions {
        global: global_of(spec.global),
        streams: spec.streams.as_ref().map(|ss| {
            let mut m = AHashMap::new();
            for s in ss {
                m.insert(s.stream, stream_of(s));
            }
            m
        }),
    }
}

pub fn root_spec() -> PermSpec {
    PermSpec { global: 0x3ff, streams: None }
}

pub fn topic_spec(max_topic: u32) -> impl Strategy<Value = TopicPermSpec> {
    (1u32..=max_topic, 0u8..16).prop_map(|(topic, flags)| TopicPermSpec { topic, flags })
}

pub fn stream_spec(max_stream: u32, max_topic: u32) -> impl Strategy<Value = StreamPermSpec> {
    (
        1u32..=max_stream,
        0u8..64,
        prop_oneof![
            2 => Just(None),
            1 => Just(Some(vec![])),
            4 => proptest::collection::vec(topic_spec(max_topic), 1..=3).prop_map(Some),
        ],
    )
        .prop_map(|(stream, flags, topics)| StreamPermSpec { stream, flags, topics })
}

pub fn perm_spec(max_stream: u32, max_topic: u32) -> impl Strategy<Value = PermSpec> {
    (
        prop_oneof![2 => Just(0u16), 1 => Just(0x3ffu16), 6 => 0u16..1024],
        prop_oneof![
            2 => Just(None),
            1 => Just(Some(vec![])),
            5 => proptest::collection::vec(stream_spec(max_stream, max_topic), 1..=3).prop_map(Some),
        ],
    )
        .prop_map(|(global, streams)| PermSpec { global, streams })
}

/// canonical JSON rendering (sorted maps) for comparisons
pub fn canon(p: &Option<Permissions>) -> serde_json::Value {
    use serde_json::json;
    match p {
        None => serde_json::Value::Null,
        Some(p) => {
            let g = &p.global;
            let mut streams = serde_json::Map::new();
            if let Some(ss) = &p.streams {
                let mut keys: Vec<_> = ss.keys().copied().collect();
                keys.sort();
                for k in keys {
                    let s = &ss[&k];
                    let topics = match &s.topics {
                        None => serde_json::Value::Null,
                        // an empty table is the same as an absent one (binary wire cannot tell them apart)
                        Some(ts) if ts.is_empty() => serde_json::Value::Null,
                        Some(ts) => {
                            let mut tm = serde_json::Map::new();
                            let mut tk: Vec<_> = ts.keys().copied().collect();
                            tk.sort();
                            for t in tk {
                                let tp = &ts[&t];
                                tm.insert(t.to_string(), json!([tp.manage_topic, tp.read_topic, tp.poll_messages, tp.send_messages]));
                            }
                            serde_json::Value::Object(tm)
                        }
                    };
                    streams.insert(
                        k.to_string(),
                        json!({"f":[s.manage_stream,s.read_stream,s.manage_topics,s.read_topics,s.poll_messages,s.send_messages],"topics":topics}),
                    );
                }
            }
            json!({
                "global":[g.manage_servers,g.read_servers,g.manage_users,g.read_users,g.manage_streams,g.read_streams,g.manage_topics,g.read_topics,g.poll_messages,g.send_messages],
                "streams": if p.streams.as_ref().map(|m| !m.is_empty()).unwrap_or(false) { serde_json::Value::Object(streams) } else { serde_json::Value::Null },
            })
        }
    }
}
