//! C11: `journal-tamper` (every single-bit flip, every truncation length, entry removal /
//! duplication / swap / prefix loss on journals built by the real FileState) and
//! `journal-sched` (concurrent appliers with seeded schedule points and injected append failures).

use crate::common::*;
use crate::node::KEY_A;
use crate::permgen::{self, perm_spec, PermSpec};
use crate::runner::{Engine, Params, Tier};
use iggy::bytes_serializable::BytesSerializable;
use iggy::compression::compression_algorithm::CompressionAlgorithm;
use iggy::identifier::Identifier;
use iggy::models::user_status::UserStatus;
use iggy::utils::crypto::{Aes256GcmEncryptor, EncryptorKind};
use iggy::utils::expiry::IggyExpiry;
use iggy::utils::topic_size::MaxTopicSize;
use proptest::prelude::*;
use proptest::strategy::BoxedStrategy;
use serde::{Deserialize, Serialize};
use server::state::command::EntryCommand;
use server::state::entry::StateEntry;
use server::state::file::FileState;
use server::state::models::CreatePersonalAccessTokenWithHash;
use server::state::State;
use server::streaming::persistence::persister::{FilePersister, PersisterKind};
use server::versioning::SemanticVersion;
use std::sync::Arc;

#[derive(Debug, Clone, PartialEq, Serialize, Deserialize)]
pub enum JCmd {
    CreateStream { id: Option<u32>, name: u8 },
    UpdateStream { id: u32, name: u8 },
    DeleteStream { id: u32 },
    PurgeStream { id: u32 },
    CreateTopic { stream: u32, id: Option<u32>, parts: u32, name: u8 },
    PurgeTopic { stream: u32, topic: u32 },
    CreatePartitions { stream: u32, topic: u32, n: u32 },
    CreateGroup { stream: u32, topic: u32, id: Option<u32>, name: u8 },
    CreateUser { name: u8, perms: Option<PermSpec> },
    UpdatePermissions { user: u32, perms: Option<PermSpec> },
    ChangePassword { user: u32 },
    CreatePat { name: u8 },
    DeletePat { name: u8 },
    /// update_permissions with `streams` stream records of 3 000 topic records each: an entry of 2 - 3 MB
    /// (more than one file-layer write; only the schedule engine generates it)
    HugePermissions { user: u32, streams: u8 },
}

fn nm(i: u8) -> String {
    // (one name in six is not ASCII: byte length != character count)
    let base = ["a", "orders", "x".repeat(40).as_str(), "Stream-Name_01", "t", "zam\u{f3}wienia-\u{142}\u{f3}d\u{17a}"][i as usize % 6].to_string();
    format!("{base}{}", i / 6)
}

fn build(c: &JCmd) -> EntryCommand {
    use iggy::consumer_groups::create_consumer_group::CreateConsumerGroup;
    use iggy::partitions::create_partitions::CreatePartitions;
    use iggy::personal_access_tokens::{create_personal_access_token::CreatePersonalAccessToken, delete_personal_access_token::DeletePersonalAccessToken};
    use iggy::streams::{create_stream::CreateStream, delete_stream::DeleteStream, purge_stream::PurgeStream, update_stream::UpdateStream};
    use iggy::topics::{create_topic::CreateTopic, purge_topic::PurgeTopic};
    use iggy::users::{change_password::ChangePassword, create_user::CreateUser, update_permissions::UpdatePermissions};
    let id = |n: u32| Identifier::numeric(n.max(1)).unwrap();
    match c {
        JCmd::CreateStream { id, name } => EntryCommand::CreateStream(CreateStream { stream_id: *id, name: nm(*name) }),
        JCmd::UpdateStream { id: i, name } => EntryCommand::UpdateStream(UpdateStream { stream_id: id(*i), name: nm(*name) }),
        JCmd::DeleteStream { id: i } => EntryCommand::DeleteStream(DeleteStream { stream_id: id(*i) }),
        JCmd::PurgeStream { id: i } => EntryCommand::PurgeStream(PurgeStream { stream_id: id(*i) }),
        JCmd::CreateTopic { stream, id: i, parts, name } => EntryCommand::CreateTopic(CreateTopic {
            stream_id: id(*stream),
            topic_id: *i,
            partitions_count: *parts,
            compression_algorithm: CompressionAlgorithm::None,
            message_expiry: IggyExpiry::NeverExpire,
            max_topic_size: MaxTopicSize::Unlimited,
            replication_factor: Some(1),
            name: nm(*name),
        }),
        JCmd::PurgeTopic { stream, topic } => EntryCommand::PurgeTopic(PurgeTopic { stream_id: id(*stream), topic_id: id(*topic) }),
        JCmd::CreatePartitions { stream, topic, n } => EntryCommand::CreatePartitions(CreatePartitions { stream_id: id(*stream), topic_id: id(*topic), partitions_count: (*n).max(1) }),
        JCmd::CreateGroup { stream, topic, id: i, name } => EntryCommand::CreateConsumerGroup(CreateConsumerGroup { stream_id: id(*stream), topic_id: id(*topic), group_id: *i, name: nm(*name) }),
        JCmd::CreateUser { name, perms } => EntryCommand::CreateUser(CreateUser {
            username: format!("user{}", name),
            password: "$2b$04$abcdefghijklmnopqrstuuJ8Rz1Qv3o3kP2x1Zy0w9v8u7t6s5r4q".into(),
            status: UserStatus::Active,
            permissions: perms.as_ref().map(|p| permgen::build(&permgen::normalized(p))),
        }),
        JCmd::UpdatePermissions { user, perms } => EntryCommand::UpdatePermissions(UpdatePermissions { user_id: id(*user), permissions: perms.as_ref().map(|p| permgen::build(&permgen::normalized(p))) }),
        JCmd::HugePermissions { user, streams } => {
            use iggy::models::permissions::{GlobalPermissions, Permissions, StreamPermissions, TopicPermissions};
            let mut sm = ahash::AHashMap::new();
            for s in 1..=(*streams as u32) {
                let mut tm = ahash::AHashMap::new();
                for t in 1..=3000u32 {
                    tm.insert(t, TopicPermissions { manage_topic: t % 2 == 0, read_topic: true, poll_messages: t % 3 == 0, send_messages: false });
                }
                sm.insert(s, StreamPermissions { manage_stream: false, read_stream: true, manage_topics: false, read_topics: true, poll_messages: false, send_messages: false, topics: Some(tm) });
            }
            EntryCommand::UpdatePermissions(UpdatePermissions { user_id: id(*user), permissions: Some(Permissions { global: GlobalPermissions::default(), streams: Some(sm) }) })
        }
        JCmd::ChangePassword { user } => EntryCommand::ChangePassword(ChangePassword { user_id: id(*user), current_password: "".into(), new_password: "$2b$04$zyxwvutsrqponmlkjihgfeJ8Rz1Qv3o3kP2x1Zy0w9v8u7t6s5r4q".into() }),
        JCmd::CreatePat { name } => EntryCommand::CreatePersonalAccessToken(CreatePersonalAccessTokenWithHash {
            command: CreatePersonalAccessToken { name: format!("tok{}", name), expiry: IggyExpiry::NeverExpire },
            hash: "0f1e2d3c4b5a69788796a5b4c3d2e1f00f1e2d3c4b5a69788796a5b4c3d2e1f0".into(),
        }),
        JCmd::DeletePat { name } => EntryCommand::DeletePersonalAccessToken(DeletePersonalAccessToken { name: format!("tok{}", name) }),
    }
}

fn jcmd_s() -> BoxedStrategy<JCmd> {
    let oid = || prop_oneof![Just(None), (1u32..50).prop_map(Some)];
    prop_oneof![
        (oid(), 0u8..20).prop_map(|(id, name)| JCmd::CreateStream { id, name }),
        (1u32..9, 0u8..20).prop_map(|(id, name)| JCmd::UpdateStream { id, name }),
        (1u32..9).prop_map(|id| JCmd::DeleteStream { id }),
        (1u32..9).prop_map(|id| JCmd::PurgeStream { id }),
        (1u32..9, oid(), 0u32..5, 0u8..20).prop_map(|(stream, id, parts, name)| JCmd::CreateTopic { stream, id, parts, name }),
        (1u32..9, 1u32..9).prop_map(|(stream, topic)| JCmd::PurgeTopic { stream, topic }),
        (1u32..9, 1u32..9, 1u32..5).prop_map(|(stream, topic, n)| JCmd::CreatePartitions { stream, topic, n }),
        (1u32..9, 1u32..9, oid(), 0u8..20).prop_map(|(stream, topic, id, name)| JCmd::CreateGroup { stream, topic, id, name }),
        (0u8..30, prop_oneof![Just(None), perm_spec(3, 3).prop_map(Some)]).prop_map(|(name, perms)| JCmd::CreateUser { name, perms }),
        (1u32..9, prop_oneof![Just(None), perm_spec(3, 3).prop_map(Some)]).prop_map(|(user, perms)| JCmd::UpdatePermissions { user, perms }),
        (1u32..9).prop_map(|user| JCmd::ChangePassword { user }),
        (0u8..30).prop_map(|name| JCmd::CreatePat { name }),
        (0u8..30).prop_map(|name| JCmd::DeletePat { name }),
    ]
    .boxed()
}

fn file_state(path: &str, encrypted: bool) -> FileState {
    let enc = if encrypted { Some(Arc::new(EncryptorKind::Aes256Gcm(Aes256GcmEncryptor::from_base64_key(KEY_A).unwrap()))) } else { None };
    FileState::new(path, &SemanticVersion::current().unwrap(), Arc::new(PersisterKind::File(FilePersister)), enc)
}

/// comparable projection of a loaded entry
fn proj(e: &StateEntry) -> (u64, u64, u32, u32, u64, u64, u32, u32, Vec<u8>, Vec<u8>) {
    (e.index, e.term, e.leader_id, e.version, e.flags, e.timestamp.as_micros(), e.user_id, e.checksum, e.context.to_vec(), e.command.to_vec())
}

/// independent reference parse of the entry layout (state/entry.rs docs): returns entry boundaries
/// and, per entry, the byte ranges of its two length fields
fn boundaries(bytes: &[u8]) -> Option<Vec<(usize, usize, usize, usize)>> {
    // (start, end, context_len_pos, command_len_pos)
    let mut out = vec![];
    let mut at = 0usize;
    while at < bytes.len() {
        let start = at;
        let fixed = 8 + 8 + 4 + 4 + 8 + 8 + 4 + 4;
        if at + fixed + 4 > bytes.len() {
            return None;
        }
        let ctx_pos = at + fixed;
        let ctx = u32::from_le_bytes(bytes[ctx_pos..ctx_pos + 4].try_into().ok()?) as usize;
        at = ctx_pos + 4 + ctx;
        if at + 8 > bytes.len() {
            return None;
        }
        let cmd_pos = at + 4;
        let cmd = u32::from_le_bytes(bytes[cmd_pos..cmd_pos + 4].try_into().ok()?) as usize;
        at = cmd_pos + 4 + cmd;
        if at > bytes.len() {
            return None;
        }
        out.push((start, at, ctx_pos, cmd_pos));
    }
    Some(out)
}

// ------------------------------------------------------------------ journal-tamper

pub struct Tamper;

#[derive(Debug, Clone, PartialEq, Serialize, Deserialize)]
pub struct TCase {
    pub cmds: Vec<JCmd>,
    pub encrypted: bool,
    /// extra random byte replacements (position selector, value)
    pub bytes: Vec<(u16, u8)>,
    /// when set, only every k-th bit position is flipped (quick tier); 1 = exhaustive
    pub stride: u8,
    pub phase: u8,
}

struct Loaded {
    result: Result<Vec<(u64, u64, u32, u32, u64, u64, u32, u32, Vec<u8>, Vec<u8>)>, String>,
    panicked: Option<String>,
}

fn load(rt: &tokio::runtime::Runtime, path: &str, encrypted: bool) -> Loaded {
    let fs = file_state(path, encrypted);
    let r = std::panic::catch_unwind(std::panic::AssertUnwindSafe(|| rt.block_on(async { fs.load_entries().await })));
    match r {
        Err(_) => {
            let ps = take_panics();
            Loaded { result: Err("panic".into()), panicked: Some(ps.last().map(|p| format!("{} at {}", p.message, p.location)).unwrap_or_default()) }
        }
        Ok(Ok(es)) => Loaded { result: Ok(es.iter().map(proj).collect()), panicked: None },
        Ok(Err(e)) => Loaded { result: Err(e.to_string()), panicked: None },
    }
}

impl Engine for Tamper {
    type Case = TCase;
    fn strategy(&self, p: &Params) -> BoxedStrategy<TCase> {
        let thorough = p.tier == Tier::Thorough;
        (
            proptest::collection::vec(jcmd_s(), 3..=(if thorough { 25 } else { 10 })),
            prop_oneof![3 => Just(false), 1 => Just(true)],
            proptest::collection::vec((any::<u16>(), any::<u8>()), 0..40),
            if thorough { Just(1u8).boxed() } else { prop_oneof![1 => Just(3u8), 3 => Just(11u8)].boxed() },
            any::<u8>(),
        )
            .prop_map(|(cmds, encrypted, bytes, stride, phase)| TCase { cmds, encrypted, bytes, stride, phase })
            .boxed()
    }
    fn run(&self, case: &TCase, _p: &Params) -> Outcome {
        let mut out = Outcome::default();
        let _ = take_panics();
        let dir = ScratchDir::new("jrn");
        let path = dir.path.join("log").to_string_lossy().to_string();
        let mpath = dir.path.join("mutated").to_string_lossy().to_string();
        let rt = tokio::runtime::Builder::new_current_thread().enable_all().build().unwrap();
        let fs = file_state(&path, case.encrypted);
        let r: Result<(), String> = rt.block_on(async {
            fs.init().await.map_err(|e| e.to_string())?;
            for c in &case.cmds {
                fs.apply(1, build(c)).await.map_err(|e| e.to_string())?;
            }
            Ok(())
        });
        if let Err(e) = r {
            out.failure = Some(Failure::new("C11", "apply-failed", format!("building the journal failed: {e}")));
            return out;
        }
        let orig = std::fs::read(&path).unwrap_or_default();
        let base = load(&rt, &path, case.encrypted);
        let Ok(orig_entries) = base.result.clone() else {
            out.failure = Some(Failure::new("C11", "fresh-journal-does-not-load", format!("a journal written by apply() does not load: {:?} {:?}", base.result.err(), base.panicked)));
            return out;
        };
        if orig_entries.len() != case.cmds.len() {
            out.failure = Some(Failure::new("C11", "fresh-journal-entry-count", format!("{} commands applied, {} entries load", case.cmds.len(), orig_entries.len())));
            return out;
        }
        for (i, e) in orig_entries.iter().enumerate() {
            if e.0 != i as u64 {
                out.failure = Some(Failure::new("C11", "indices-not-consecutive", format!("entry {i} has index {}", e.0)));
                return out;
            }
        }
        let Some(bounds) = boundaries(&orig) else {
            out.failure = Some(Failure::new("C11", "layout-differs-from-documentation", "the reference parser (from the documented entry layout) cannot walk a freshly written journal".to_string()));
            return out;
        };
        let len_fields: Vec<usize> = bounds.iter().flat_map(|b| [b.2, b.3]).collect();
        let mut verdict = |mutated: &[u8], what: String, boundary_cut: Option<usize>, out: &mut Outcome| -> Option<Failure> {
            if std::fs::write(&mpath, mutated).is_err() {
                return None;
            }
            out.steps += 1;
            let l = load(&rt, &mpath, case.encrypted);
            if let Some(p) = l.panicked {
                return Some(Failure::new("C11", "loader-panics", format!("{what}: the loader panicked: {p}")).tag("tamper"));
            }
            match l.result {
                Err(_) => None,
                Ok(es) => {
                    let is_prefix = es.len() <= orig_entries.len() && es.iter().zip(orig_entries.iter()).all(|(a, b)| a == b);
                    if !is_prefix {
                        return Some(
                            Failure::new("C11", "corruption-accepted-as-other-history", format!(
                                "{what}: the loader accepted the file and returned {} entries (indices {:?}) that are not a prefix of the {} original entries",
                                es.len(), es.iter().map(|e| e.0).collect::<Vec<_>>(), orig_entries.len()))
                            .tag("tamper"),
                        );
                    }
                    if es.len() < orig_entries.len() {
                        // loss of a whole suffix: only a cut exactly at an entry boundary may pass
                        if boundary_cut != Some(es.len()) {
                            return Some(Failure::new("C11", "corruption-unnoticed", format!(
                                "{what}: the loader returned only the first {} of {} entries without reporting an error", es.len(), orig_entries.len())).tag("tamper"));
                        }
                    } else if boundary_cut.is_none() && mutated != orig.as_slice() {
                        return Some(Failure::new("C11", "corruption-unnoticed", format!("{what}: the changed file loads as the unchanged history")).tag("tamper"));
                    }
                    None
                }
            }
        };
        // every single-bit flip (stride 1 = exhaustive); flips that turn a length field into >= 64 MiB are
        // excluded and counted (the loader would first allocate that much; see DESIGN 5-C11)
        let stride = case.stride.max(1) as usize;
        let mut k = case.phase as usize % stride;
        let total_bits = orig.len() * 8;
        while k < total_bits {
            let (byte, bit) = (k / 8, k % 8);
            k += stride;
            if len_fields.iter().any(|lf| byte == lf + 3 && bit >= 2) {
                out.count("excluded_oversize_length_flips", 1);
                continue;
            }
            let mut m = orig.clone();
            m[byte] ^= 1 << bit;
            out.count("bit_flips", 1);
            if let Some(f) = verdict(&m, format!("bit {bit} of byte {byte} flipped (file of {} bytes, {} entries)", orig.len(), bounds.len()), None, &mut out) {
                out.failure = Some(f);
                return out;
            }
        }
        // truncation at every length
        let mut t = 0usize;
        while t < orig.len() {
            let cut = bounds.iter().position(|b| b.0 == t);
            let cut = if t == 0 { Some(0) } else { cut };
            out.count("truncations", 1);
            if let Some(f) = verdict(&orig[..t], format!("file truncated to {t} of {} bytes", orig.len()), cut, &mut out) {
                out.failure = Some(f);
                return out;
            }
            t += if stride == 1 { 1 } else { 1 + (t % stride) };
        }
        // whole-entry edits
        let n = bounds.len();
        for i in 0..n {
            // remove entry i (i == n-1 is a suffix loss: allowed)
            let mut m = orig[..bounds[i].0].to_vec();
            m.extend_from_slice(&orig[bounds[i].1..]);
            out.count("entry_removals", 1);
            let cut = if i == n - 1 { Some(n - 1) } else { None };
            if let Some(f) = verdict(&m, format!("entry {i} of {n} removed"), cut, &mut out) {
                out.failure = Some(f.tag(if i == 0 { "first-entry" } else { "middle-entry" }));
                return out;
            }
            // duplicate entry i
            let mut m = orig[..bounds[i].1].to_vec();
            m.extend_from_slice(&orig[bounds[i].0..bounds[i].1]);
            m.extend_from_slice(&orig[bounds[i].1..]);
            out.count("entry_duplications", 1);
            if let Some(f) = verdict(&m, format!("entry {i} of {n} duplicated"), None, &mut out) {
                out.failure = Some(f);
                return out;
            }
            // swap entries i and i+1
            if i + 1 < n {
                let mut m = orig[..bounds[i].0].to_vec();
                m.extend_from_slice(&orig[bounds[i + 1].0..bounds[i + 1].1]);
                m.extend_from_slice(&orig[bounds[i].0..bounds[i].1]);
                m.extend_from_slice(&orig[bounds[i + 1].1..]);
                out.count("entry_swaps", 1);
                if let Some(f) = verdict(&m, format!("entries {i} and {} of {n} swapped", i + 1), None, &mut out) {
                    out.failure = Some(f);
                    return out;
                }
            }
            // loss of the first i+1 entries (a prefix, not a suffix)
            if i + 1 < n {
                let m = orig[bounds[i].1..].to_vec();
                out.count("prefix_removals", 1);
                if let Some(f) = verdict(&m, format!("the first {} of {n} entries removed", i + 1), None, &mut out) {
                    out.failure = Some(f.tag("first-entry"));
                    return out;
                }
            }
        }
        // random byte replacements
        for (sel, v) in &case.bytes {
            let pos = pick(*sel, orig.len());
            if orig[pos] == *v || len_fields.iter().any(|lf| pos == lf + 3) {
                continue;
            }
            let mut m = orig.clone();
            m[pos] = *v;
            out.count("byte_replacements", 1);
            if let Some(f) = verdict(&m, format!("byte {pos} replaced by {v}"), None, &mut out) {
                out.failure = Some(f);
                return out;
            }
        }
        out.nontrivial = true;
        if case.encrypted {
            out.label("encrypted-journal");
        }
        if stride == 1 {
            out.label("exhaustive-bit-flips");
        }
        out
    }
    fn rule(&self, _p: &Params) -> String {
        "case = a journal of 3..25 generated catalogue commands written by the real FileState::apply (plain or AES-encrypted); mutations per journal: every single-bit flip (stride 1 = exhaustive: thorough tier and the committed regression journals; the quick tier samples every 3rd / 11th bit position with a generated phase), truncation at every length, removal / duplication / adjacent swap of every whole entry, loss of every proper prefix of entries, generated byte replacements; oracle: the loader returns an error, or exactly a prefix of the original entries - and a shorter prefix only when the file was cut exactly at an entry boundary; it never panics; every case is non-trivial (each runs thousands of mutations, counted in 'counters')".into()
    }
    fn assumptions(&self, _p: &Params) -> Vec<String> {
        vec!["bit flips that make a length field >= 64 MiB are excluded and counted (the loader allocates the claimed length before reading; see DESIGN 5-C11)".into()]
    }
}

// ------------------------------------------------------------------ journal-sched

pub struct Sched;

#[derive(Debug, Clone, PartialEq, Serialize, Deserialize)]
pub struct SCase {
    /// commands per task
    pub tasks: Vec<Vec<JCmd>>,
    pub seed: u64,
    /// 1-based numbers of append calls that fail
    pub failing_appends: Vec<u8>,
    pub encrypted: bool,
    pub preload: u8,
}

impl Engine for Sched {
    type Case = SCase;
    fn strategy(&self, _p: &Params) -> BoxedStrategy<SCase> {
        (
            proptest::collection::vec(proptest::collection::vec(prop_oneof![150 => jcmd_s(), 1 => (1u32..9, 80u8..=110).prop_map(|(user, streams)| JCmd::HugePermissions { user, streams })], 1..6), 1..=6),
            any::<u64>(),
            prop_oneof![2 => Just(vec![]), 2 => proptest::collection::vec(1u8..20, 1..3)],
            prop_oneof![4 => Just(false), 1 => Just(true)],
            0u8..3,
        )
            .prop_map(|(tasks, seed, failing_appends, encrypted, preload)| SCase { tasks, seed, failing_appends, encrypted, preload })
            .boxed()
    }
    fn run(&self, case: &SCase, _p: &Params) -> Outcome {
        let mut out = Outcome::default();
        let _ = take_panics();
        let dir = ScratchDir::new("jsched");
        let path = dir.path.join("log").to_string_lossy().to_string();
        let rt = tokio::runtime::Builder::new_multi_thread().worker_threads(4).enable_all().build().unwrap();
        let fs = Arc::new(file_state(&path, case.encrypted));
        server::verif::disarm_all();
        let pre: Result<(), String> = rt.block_on(async {
            fs.init().await.map_err(|e| e.to_string())?;
            for i in 0..case.preload {
                fs.apply(1, build(&JCmd::CreateStream { id: Some(100 + i as u32), name: i })).await.map_err(|e| e.to_string())?;
            }
            Ok(())
        });
        if let Err(e) = pre {
            out.failure = Some(Failure::new("C11", "apply-failed", e));
            return out;
        }
        server::verif::arm_chaos("state.between_index_and_append", server::verif::ChaosAction::Seeded { max_us: 300 }, case.seed);
        if !case.failing_appends.is_empty() {
            server::verif::arm_fault("state.append", case.failing_appends.iter().map(|x| *x as u64).collect());
        }
        // every command is tagged (unique stream name) so that it can be recognised in the journal
        let mut handles = vec![];
        for (ti, cmds) in case.tasks.iter().enumerate() {
            let fs = fs.clone();
            let cmds = cmds.clone();
            handles.push(rt.spawn(async move {
                let mut acks: Vec<(usize, usize, bool, Vec<u8>)> = vec![];
                for (ci, c) in cmds.iter().enumerate() {
                    let e = build(c);
                    let bytes = e.to_bytes().to_vec();
                    let r = fs.apply((ti * 100 + ci) as u32 + 10, e).await;
                    acks.push((ti, ci, r.is_ok(), bytes));
                }
                acks
            }));
        }
        let mut acks: Vec<(usize, usize, bool, Vec<u8>)> = vec![];
        for h in handles {
            match rt.block_on(h) {
                Ok(a) => acks.extend(a),
                Err(e) => {
                    let ps = take_panics();
                    out.failure = Some(Failure::new("C11", "apply-panics", format!("an applier task panicked: {e}; {:?}", ps.last())));
                    server::verif::disarm_all();
                    return out;
                }
            }
        }
        let hits = server::verif::chaos_hits();
        server::verif::disarm_all();
        out.count("schedule_point_hits", hits);
        let overlapping = case.tasks.len() >= 2 && hits >= 2;
        let failed = acks.iter().filter(|a| !a.2).count();
        if failed > 0 {
            out.label("append-failure-injected");
        }
        let fail = |clause: &str, d: String| Failure::new("C11", clause, format!("{} tasks, {} acknowledged + {} failed applies, preload {}, seed {}: {d}", case.tasks.len(), acks.len() - failed, failed, case.preload, case.seed)).tag(if failed > 0 { "with-append-failure" } else { "no-append-failure" });
        // the journal must load and contain exactly the acknowledged commands, each once
        let l = {
            let fs2 = file_state(&path, case.encrypted);
            let r = std::panic::catch_unwind(std::panic::AssertUnwindSafe(|| rt.block_on(async { fs2.load_entries().await })));
            match r {
                Err(_) => Err(format!("loader panicked: {:?}", take_panics().last())),
                Ok(Err(e)) => Err(e.to_string()),
                Ok(Ok(es)) => Ok(es),
            }
        };
        let es = match l {
            Ok(es) => es,
            Err(e) => {
                out.failure = Some(fail("journal-unloadable-after-concurrent-applies", format!("the journal no longer loads: {e}")));
                return out;
            }
        };
        for (i, e) in es.iter().enumerate() {
            if e.index != i as u64 {
                out.failure = Some(fail("indices-not-consecutive", format!("entry at file position {i} has index {}", e.index)));
                return out;
            }
        }
        let mut want: Vec<(u32, Vec<u8>)> = acks.iter().filter(|a| a.2).map(|a| ((a.0 * 100 + a.1) as u32 + 10, a.3.clone())).collect();
        let mut got: Vec<(u32, Vec<u8>)> = es.iter().skip(case.preload as usize).map(|e| (e.user_id, e.command.to_vec())).collect();
        if case.encrypted {
            // command bytes in the entry are the decrypted form: comparable as is
        }
        want.sort();
        got.sort();
        if want != got {
            let wu: Vec<u32> = want.iter().map(|x| x.0).collect();
            let gu: Vec<u32> = got.iter().map(|x| x.0).collect();
            out.failure = Some(fail("journal-differs-from-acknowledged", format!("acknowledged appliers (by tag) {:?}, journal holds {:?}", wu, gu)));
            return out;
        }
        // what was journalled must decode (start-up decodes it) to a command that survives its own encoder and
        // decoder: a name cut by a wrong length prefix decodes to ANOTHER command or not at all
        for (i, e) in es.iter().enumerate().skip(case.preload as usize) {
            let dec = std::panic::catch_unwind(std::panic::AssertUnwindSafe(|| EntryCommand::from_bytes(e.command.clone())));
            match dec {
                Ok(Ok(c)) => {
                    // value-level round trip (byte-level would depend on the iteration order of permission maps)
                    let again = std::panic::catch_unwind(std::panic::AssertUnwindSafe(|| EntryCommand::from_bytes(c.to_bytes())));
                    let same = matches!(&again, Ok(Ok(c2)) if *c2 == c);
                    if !same {
                        let _ = take_panics();
                        out.failure = Some(fail("journalled-command-does-not-round-trip", format!("entry {i} decodes to {:?}, which does not survive its own encoder and decoder", c)));
                        return out;
                    }
                }
                Ok(Err(err)) => {
                    out.failure = Some(fail("journalled-command-undecodable", format!("entry {i} cannot be decoded at start-up: {err}")));
                    return out;
                }
                Err(_) => {
                    let _ = take_panics();
                    out.failure = Some(fail("journalled-command-undecodable", format!("decoding entry {i} panics")));
                    return out;
                }
            }
        }
        // a later command must still be accepted and replayed
        let later = rt.block_on(async { fs.apply(7, build(&JCmd::CreateStream { id: Some(999), name: 3 })).await });
        if let Err(e) = later {
            out.failure = Some(fail("later-apply-fails", format!("{e}")));
            return out;
        }
        let fs3 = file_state(&path, case.encrypted);
        let r = rt.block_on(async { fs3.load_entries().await });
        match r {
            Ok(v) if v.len() == es.len() + 1 => {}
            other => {
                out.failure = Some(fail("journal-unloadable-after-later-apply", format!("after one more apply the journal gives {:?}", other.map(|v| v.len()).map_err(|e| e.to_string()))));
                return out;
            }
        }
        if overlapping {
            out.nontrivial = true;
            out.label("overlapping-appliers");
        }
        if case.tasks.iter().flatten().any(|c| matches!(c, JCmd::HugePermissions { .. })) {
            out.label("entry-over-2MiB");
        }
        if failed > 0 {
            out.nontrivial = true;
        }
        out.steps += acks.len() as u64;
        out
    }
    fn rule(&self, _p: &Params) -> String {
        "case = 1..6 tasks each applying 1..5 generated commands concurrently to ONE FileState on a 4-thread runtime, with the schedule point between index allocation and append armed (seeded yields / sleeps up to 300 us) and a generated set of append calls that fail (fault switch, hook H5); oracle: the journal loads, indices are consecutive in file order, it holds exactly the acknowledged commands (each once, recognised by a per-apply tag), a failed append leaves a journal that still loads, and one more apply is accepted and replayed; non-trivial = >=2 tasks with >=2 schedule-point hits, or >=1 injected append failure".into()
    }
    fn assumptions(&self, _p: &Params) -> Vec<String> {
        vec!["schedules are sampled (seeded yields/sleeps at the hook), not enumerated".into()]
    }
}

/// `vcheck --dump-journals <dir> <n>`: writes n small valid journals (plain) built by the real FileState - the
/// seed corpus of the libFuzzer target /verif/fuzz/fuzz_targets/journal_load.rs
pub fn dump_journals(dir: &std::path::Path, n: usize) {
    std::fs::create_dir_all(dir).unwrap();
    let rt = tokio::runtime::Builder::new_current_thread().enable_all().build().unwrap();
    let cmds = [
        JCmd::CreateStream { id: Some(1), name: 0 },
        JCmd::CreateTopic { stream: 1, id: Some(1), parts: 2, name: 1 },
        JCmd::CreateUser { name: 3, perms: None },
        JCmd::CreateGroup { stream: 1, topic: 1, id: None, name: 4 },
        JCmd::CreatePat { name: 2 },
        JCmd::UpdateStream { id: 1, name: 6 },
        JCmd::ChangePassword { user: 2 },
        JCmd::PurgeTopic { stream: 1, topic: 1 },
        JCmd::DeletePat { name: 2 },
        JCmd::DeleteStream { id: 1 },
    ];
    for i in 0..n {
        let scratch = ScratchDir::new("jdump");
        let path = scratch.path.join("log").to_string_lossy().to_string();
        let fs = file_state(&path, false);
        rt.block_on(async {
            fs.init().await.unwrap();
            for k in 0..=(i % cmds.len()) {
                fs.apply(1, build(&cmds[(i / 3 + k) % cmds.len()])).await.unwrap();
            }
        });
        std::fs::copy(&path, dir.join(format!("journal-{i:03}"))).unwrap();
    }
}
