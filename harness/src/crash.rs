//! `crash` engine (C04): a generated workload runs with the file-mutation hook (H4) armed;
//! after EVERY file mutation the data directory is frozen as a crash image, torn variants
//! of the last write are derived, and every image is recovered by the real start-up code.

use crate::common::*;
use crate::msgs;
use crate::node::{Node, NodeCfg, StartError};
use crate::runner::{Engine, Params, Tier};
use bytes::Bytes;
use iggy::client::{Client, ConsumerOffsetClient, MessageClient, StreamClient, TopicClient};
use iggy::compression::compression_algorithm::CompressionAlgorithm;
use iggy::consumer::Consumer;
use iggy::error::IggyError;
use iggy::identifier::Identifier;
use iggy::messages::poll_messages::PollingStrategy;
use iggy::messages::send_messages::{Message, Partitioning};
use iggy::utils::expiry::IggyExpiry;
use iggy::utils::topic_size::MaxTopicSize;
use proptest::prelude::*;
use proptest::strategy::BoxedStrategy;
use serde::{Deserialize, Serialize};
use std::path::{Path, PathBuf};
use std::sync::{Arc, Mutex};

pub struct Crash;

#[derive(Debug, Clone, PartialEq, Serialize, Deserialize)]
pub enum WOp {
    Send { part: u8, n: u8, len: u16 },
    Flush { part: u8 },
    BgSave,
    StoreOffset { part: u8, consumer: u8, frac: u16 },
    CreateStream2,
    PurgeTopic,
    /// let background tasks run for this many ms (hand-written regression files only)
    Settle(u16),
}

#[derive(Debug, Clone, PartialEq, Serialize, Deserialize)]
pub struct CCase {
    pub cfg: NodeCfg,
    pub ops: Vec<WOp>,
    /// which images get torn variants / recoveries when the workload produced many (selector stride)
    pub sample: u8,
    /// (schedule point, delay ms) armed during the workload; only hand-written regression files use it
    #[serde(default)]
    pub chaos: Vec<(String, u64)>,
}

fn sid() -> Identifier {
    Identifier::numeric(3).unwrap()
}
fn tid() -> Identifier {
    Identifier::numeric(2).unwrap()
}

const PARTS: u32 = 2;

#[derive(Debug, Clone)]
struct Image {
    n: usize,
    kind: String,
    path: String,
    dir: PathBuf,
    /// size of the touched file in the previous image / in this image
    prev_size: u64,
    size: u64,
    /// lower bound of durable messages per partition (as of the last completed op), and epoch (purges so far)
    durable: Vec<u64>,
    epoch: u32,
    /// number of ops completed when the image was taken
    op: usize,
}

struct Recorder {
    root: PathBuf,
    images_dir: PathBuf,
    images: Vec<Image>,
    durable: Vec<u64>,
    epoch: u32,
    op: usize,
    enabled: bool,
}

fn rel_size(dir: &Path, root: &Path, path: &str) -> u64 {
    let p = Path::new(path);
    let rel = p.strip_prefix(root).unwrap_or(p);
    std::fs::metadata(dir.join(rel)).map(|m| m.len()).unwrap_or(0)
}

impl Engine for Crash {
    type Case = CCase;
    fn strategy(&self, p: &Params) -> BoxedStrategy<CCase> {
        let max_ops = if p.tier == Tier::Thorough { 15 } else { 10 };
        let op = prop_oneof![
            12 => (0u8..2, 1u8..5, prop_oneof![Just(10u16), Just(40), Just(200)]).prop_map(|(part, n, len)| WOp::Send { part, n, len }),
            2 => (0u8..2).prop_map(|part| WOp::Flush { part }),
            2 => Just(WOp::BgSave),
            3 => (0u8..2, 1u8..3, any::<u16>()).prop_map(|(part, consumer, frac)| WOp::StoreOffset { part, consumer, frac }),
            1 => Just(WOp::CreateStream2),
            1 => Just(WOp::PurgeTopic),
        ];
        (
            prop_oneof![Just(1u32), Just(2), Just(3), Just(1000)],
            prop_oneof![Just(300u64), Just(700), Just(1_000_000)],
            any::<bool>(),
            prop_oneof![3 => Just(false), 1 => Just(true)],
            prop_oneof![3 => Just(false), 1 => Just(true)],
            proptest::collection::vec(op, 1..=max_ops),
            any::<u8>(),
        )
            .prop_map(|(thr, seg, ci, fsync, no_wait, ops, sample)| CCase {
                cfg: NodeCfg { save_threshold: thr, segment_size: seg, cache_indexes: ci, fsync, no_wait, ..NodeCfg::default() },
                ops,
                sample,
                chaos: vec![],
            })
            .boxed()
    }

    fn run(&self, case: &CCase, p: &Params) -> Outcome {
        let mut out = Outcome::default();
        let _ = take_panics();
        let dir = ScratchDir::new("crash");
        let data = dir.path.join("data");
        let images_dir = dir.path.join("images");
        let _ = std::fs::create_dir_all(&data);
        let _ = std::fs::create_dir_all(&images_dir);
        let rec = Arc::new(Mutex::new(Recorder { root: data.clone(), images_dir: images_dir.clone(), images: vec![], durable: vec![0; PARTS as usize], epoch: 0, op: 0, enabled: false }));
        let r = run_workload(case, p, &data, &rec, &mut out);
        server::verif::set_fs_event_callback(None);
        let (model, epochs) = match r {
            Ok(m) => m,
            Err(f) => {
                out.failure = Some(f);
                let _ = take_panics();
                return out;
            }
        };
        let images = rec.lock().unwrap().images.clone();
        out.count("events", images.len() as u64);
        // recover every image (and torn variants of its last write)
        let thorough = p.tier == Tier::Thorough;
        let budget = if thorough { 400 } else { 60 };
        let stride = (images.len() / budget).max(1);
        let scratch = dir.path.join("recover");
        for (i, im) in images.iter().enumerate() {
            if stride > 1 && (i + case.sample as usize) % stride != 0 && i + 1 != images.len() {
                continue;
            }
            out.count("images", 1);
            if let Err(f) = recover(p, case, im, None, &scratch, &model, &epochs, &mut out) {
                out.failure = Some(f);
                let _ = take_panics();
                return out;
            }
            // torn variants: the last write cut short
            if im.size > im.prev_size && (im.kind.contains("append")) {
                let w = im.size - im.prev_size;
                let mut cuts: Vec<u64> = if w <= 64 { (1..w).collect() } else { vec![1, 23, 24, 25, w / 2, w - 1] };
                cuts.retain(|c| *c > 0 && *c < w);
                cuts.dedup();
                for c in cuts {
                    out.count("torn_images", 1);
                    if let Err(f) = recover(p, case, im, Some(im.prev_size + c), &scratch, &model, &epochs, &mut out) {
                        out.failure = Some(f);
                        let _ = take_panics();
                        return out;
                    }
                }
            }
        }
        let _ = take_panics();
        out
    }
    fn rule(&self, _p: &Params) -> String {
        "case = generated server config (save threshold, segment size, index cache, fsync, wait/no-wait) + workload of <= 15 ops (sends to 2 partitions, flush, background save, consumer-offset stores, create stream, purge); with hook H4 armed the data directory is copied after EVERY file mutation (log append, background log append, index append, state / offset file append-overwrite-delete, segment created / deleted); for append events torn variants cut the last write to {1, header-1, header, header+1, mid, len-1} bytes (all lengths for writes <= 64 bytes); every image is recovered by the real start-up code: no panic; start succeeds (an error is tolerated only when the torn file is the state log or an offset file); each partition serves a gap-free duplicate-free element-wise PREFIX of what was accepted, at least what was durable when the last completed op ended (wait confirmation), stored consumer offsets are values that were stored, two post-recovery sends get the next offsets and a full re-read still is prefix + new; non-trivial = an image taken between a log append and its index append, a torn image, or an image with an empty freshly created last segment".into()
    }
    fn assumptions(&self, _p: &Params) -> Vec<String> {
        vec![
            "process-crash semantics: what was written stays written (no power-loss reordering of un-fsynced pages)".into(),
            "the lower bound of durable messages is what was persisted when the last COMPLETED op ended (batches completed in the middle of the interrupted op are not demanded)".into(),
            "workloads producing more events than the per-case budget are sampled with a generated phase (counted in 'events' vs 'images')".into(),
        ]
    }
}

type Model = Vec<Vec<Vec<Vec<u8>>>>; // epoch -> partition -> payloads

fn run_workload(case: &CCase, _p: &Params, data: &Path, rec: &Arc<Mutex<Recorder>>, out: &mut Outcome) -> Result<(Model, Vec<Vec<(u8, u64)>>), Failure> {
    let fail = |c: &str, d: String| Failure::new("C04", c, d);
    for (name, ms) in &case.chaos {
        server::verif::arm_chaos(name, server::verif::ChaosAction::DelayMs(*ms), 1);
    }
    let node = Node::start(&case.cfg, data).map_err(|e| fail("start-failed", format!("{e:?}")))?;
    let cl = node.tcp_root().map_err(|e| fail("cannot-connect", e.to_string()))?;
    node.block_on(async {
        cl.create_stream("s", Some(3)).await?;
        cl.create_topic(&sid(), "t", PARTS, CompressionAlgorithm::None, None, Some(2), IggyExpiry::NeverExpire, MaxTopicSize::Unlimited).await?;
        Ok::<(), IggyError>(())
    })
    .map_err(|e| fail("setup", e.to_string()))?;
    // arm the recorder
    {
        let rec2 = rec.clone();
        let cb: Arc<dyn Fn(&str, &str) + Send + Sync> = Arc::new(move |kind: &str, path: &str| {
            let mut r = rec2.lock().unwrap();
            if !r.enabled {
                return;
            }
            let n = r.images.len();
            let dir = r.images_dir.join(format!("{n}"));
            let _ = copy_dir(&r.root, &dir);
            let prev_size = r.images.last().map(|p| rel_size(&p.dir, &r.root, path)).unwrap_or(0);
            let size = rel_size(&dir, &r.root, path);
            let im = Image { n, kind: kind.to_string(), path: path.to_string(), dir, prev_size, size, durable: r.durable.clone(), epoch: r.epoch, op: r.op };
            r.images.push(im);
        });
        server::verif::set_fs_event_callback(Some(cb));
        rec.lock().unwrap().enabled = true;
    }
    let mut model: Model = vec![vec![vec![]; PARTS as usize]];
    // consumer offsets ever stored: per epoch, (consumer, offset) list per partition flattened
    let mut stored: Vec<Vec<(u8, u64)>> = vec![vec![]];
    let mut serial = 0u64;
    for (i, op) in case.ops.iter().enumerate() {
        out.steps += 1;
        let epoch = model.len() - 1;
        match op {
            WOp::Send { part, n, len } => {
                let pid = 1 + (*part as u32 % PARTS);
                let mut ms = vec![];
                let mut ps = vec![];
                for _ in 0..*n {
                    serial += 1;
                    let mut pl = msgs::fill(0xC4A5 + serial, *len as usize);
                    pl[..8.min(*len as usize)].copy_from_slice(&serial.to_le_bytes()[..8.min(*len as usize)]);
                    ps.push(pl.clone());
                    ms.push(Message::new(None, Bytes::from(pl), None));
                }
                // the model learns the batch before the call: a crash image in the middle may already hold it
                let idx = (pid - 1) as usize;
                model[epoch][idx].extend(ps);
                let r = node.block_on(async { cl.send_messages(&sid(), &tid(), &Partitioning::partition_id(pid), &mut ms).await });
                if let Err(e) = r {
                    return Err(fail("send-failed", e.to_string()));
                }
            }
            WOp::Flush { part } => {
                let pid = 1 + (*part as u32 % PARTS);
                let _ = node.block_on(async { cl.flush_unsaved_buffer(&sid(), &tid(), pid, false).await });
            }
            WOp::BgSave => {
                let _ = node.background_save();
            }
            WOp::StoreOffset { part, consumer, frac } => {
                let pid = 1 + (*part as u32 % PARTS);
                let idx = (pid - 1) as usize;
                let len = model[epoch][idx].len() as u64;
                if len > 0 {
                    let off = ((*frac as u64) * len) >> 16;
                    stored[epoch].push((*consumer, off));
                    let _ = node.block_on(async { cl.store_consumer_offset(&Consumer::new(Identifier::numeric(*consumer as u32).unwrap()), &sid(), &tid(), Some(pid), off).await });
                }
            }
            WOp::Settle(ms) => node.settle(*ms as u64),
            WOp::CreateStream2 => {
                let _ = node.block_on(async { cl.create_stream(&format!("extra{i}"), None).await });
            }
            WOp::PurgeTopic => {
                // the purge is a multi-step file operation; images inside it may show either epoch
                {
                    let mut r = rec.lock().unwrap();
                    r.epoch += 1;
                    r.durable = vec![0; PARTS as usize];
                }
                model.push(vec![vec![]; PARTS as usize]);
                stored.push(vec![]);
                let r = node.block_on(async { cl.purge_topic(&sid(), &tid()).await });
                if let Err(e) = r {
                    return Err(fail("purge-failed", e.to_string()));
                }
                out.label("purge-in-workload");
            }
        }
        if case.cfg.no_wait {
            node.settle(3);
        }
        // durable lower bound after the completed op: accepted minus still buffered
        let epoch = model.len() - 1;
        let mut durable = vec![];
        for pid in 1..=PARTS {
            let unsaved = node.block_on(async {
                let sys = node.system.read().await;
                let mut u = 0u64;
                if let Ok(s) = sys.get_stream(&sid()) {
                    if let Ok(t) = s.get_topic(&tid()) {
                        if let Ok(pa) = t.get_partition(pid) {
                            use iggy::locking::IggySharedMutFn;
                            let pa = pa.read().await;
                            for seg in pa.get_segments() {
                                u += seg.unsaved_messages.as_ref().map(|a| a.unsaved_messages_count() as u64).unwrap_or(0);
                            }
                        }
                    }
                }
                u
            });
            durable.push((model[epoch][(pid - 1) as usize].len() as u64).saturating_sub(unsaved));
        }
        let mut r = rec.lock().unwrap();
        r.durable = durable;
        r.op = i + 1;
    }
    rec.lock().unwrap().enabled = false;
    server::verif::set_fs_event_callback(None);
    server::verif::disarm_all();
    let _ = node.block_on(async { cl.shutdown().await });
    node.kill();
    let ps: Vec<_> = take_panics().into_iter().filter(is_repo_panic).collect();
    if let Some(p) = ps.first() {
        return Err(fail("server-panic", format!("the workload itself made the server panic: {} at {}", p.message, p.location)));
    }
    Ok((model, stored))
}

/// true if some segment's index holds more complete entries than its log holds complete batches
/// (under no-wait confirmation the index entry is written before the batch: KF-C04-3)
fn index_ahead_of_log(dir: &Path) -> bool {
    for f in list_files(dir) {
        if f.extension().map(|e| e == "index").unwrap_or(false) {
            let entries = std::fs::metadata(&f).map(|m| m.len() / 16).unwrap_or(0);
            let log = std::fs::read(f.with_extension("log")).unwrap_or_default();
            let (mut at, mut batches) = (0usize, 0u64);
            while at + 24 <= log.len() {
                let len = u32::from_le_bytes(log[at + 8..at + 12].try_into().unwrap()) as usize;
                if at + 24 + len > log.len() {
                    break;
                }
                at += 24 + len;
                batches += 1;
            }
            if entries > batches {
                return true;
            }
        }
    }
    false
}

fn recover(p: &Params, case: &CCase, im: &Image, torn_to: Option<u64>, scratch: &Path, model: &Model, stored: &[Vec<(u8, u64)>], out: &mut Outcome) -> Check {
    let _ = std::fs::remove_dir_all(scratch);
    copy_dir(&im.dir, scratch).map_err(|e| Failure::new("C04", "harness-io", e.to_string()))?;
    let root = im.dir.parent().unwrap().parent().unwrap().join("data");
    let rel = Path::new(&im.path).strip_prefix(&root).unwrap_or(Path::new(&im.path)).to_path_buf();
    let mut what = format!("image {} after event '{}' on {} (op {}, file {} -> {} bytes)", im.n, im.kind, rel.display(), im.op, im.prev_size, im.size);
    let is_state_or_offset = im.kind.starts_with("file_");
    if let Some(t) = torn_to {
        let f = scratch.join(&rel);
        if let Ok(fh) = std::fs::OpenOptions::new().write(true).open(&f) {
            let _ = fh.set_len(t);
        }
        what = format!("{what}, last write torn: file cut to {t} bytes");
        out.nontrivial = true;
        out.label("torn-image");
    }
    if im.kind == "log_append" || im.kind == "log_append_background" {
        out.nontrivial = true;
        out.label("image-between-log-and-index-append");
    }
    if im.kind == "segment_created" {
        out.nontrivial = true;
        out.label("image-with-empty-fresh-segment");
    }
    // the two crash windows of the open findings, recognised on the image itself
    let unindexed_tail = im.kind.starts_with("log_append") || (torn_to.is_some() && (im.kind == "index_append" || im.kind.starts_with("log_append")));
    let index_ahead = index_ahead_of_log(scratch);
    if index_ahead {
        out.label("image-index-ahead-of-log");
    }
    let tags = |f: Failure| {
        let mut f = f.tag(format!("event:{}", im.kind));
        if unindexed_tail {
            f = f.tag("unindexed-tail");
        }
        if index_ahead {
            f = f.tag("index-ahead-of-log");
        }
        if matches!(case.ops.get(im.op), Some(WOp::PurgeTopic)) {
            f = f.tag("in-purge");
        }
        if torn_to.is_some() {
            f = f.tag("torn");
        }
        f = f.tag(if case.cfg.no_wait { "cfg:no-wait" } else { "cfg:wait" });
        f
    };
    let node = match Node::start(&case.cfg, scratch) {
        Ok(n) => n,
        Err(StartError::Panic(m)) => {
            let _ = take_panics();
            return Err(tags(Failure::new("C04", "recovery-panics", format!("{what}: start-up panicked: {m}"))));
        }
        Err(StartError::Init(e)) => {
            let _ = take_panics();
            if torn_to.is_some() && is_state_or_offset {
                out.label("torn-state-or-offset-file-reported");
                return Ok(());
            }
            return Err(tags(Failure::new("C04", "recovery-fails", format!("{what}: start-up failed: {e}"))));
        }
    };
    let r = (|| -> Check {
        let cl = node.tcp_root().map_err(|e| Failure::new("C04", "recovery-login-fails", format!("{what}: {e}")))?;
        let topic = node.block_on(async { cl.get_topic(&sid(), &tid()).await }).map_err(|e| Failure::new("C04", "recovery-topic", format!("{what}: get_topic failed: {e}")))?;
        if topic.is_none() {
            return Err(Failure::new("C04", "recovery-topic", format!("{what}: the topic created before the workload is gone")));
        }
        // KF-C04-3 (open): under no-wait confirmation the index entry is written synchronously BEFORE the
        // batch reaches the log in the background: a crash in between leaves an index that is ahead of
        // the log (served content is then not a prefix, later offsets leave a hole). Masked: under
        // no-wait only "start-up succeeds, nothing panics" is demanded.
        // (An attempt to narrow this mask to the images whose index is ahead of the log - `index_ahead` - was
        // withdrawn: the first thorough run then reported two further no-wait failures that did not reproduce,
        // because what a no-wait image holds depends on how far the background persister happened to be. The
        // tag `index-ahead-of-log` still ties the finding's SIGNATURE to its window in the un-masked replay.)
        if case.cfg.no_wait && p.masked("KF-C04-3") {
            out.exclude("KF-C04-3");
            let _ = node.block_on(async { cl.shutdown().await });
            return Ok(());
        }
        // KF-C04-2 (open): images taken inside purge_topic (segments deleted, replacements not yet created)
        let in_purge = matches!(case.ops.get(im.op), Some(WOp::PurgeTopic));
        if in_purge && p.masked("KF-C04-2") {
            out.exclude("KF-C04-2");
            let _ = node.block_on(async { cl.shutdown().await });
            return Ok(());
        }
        for pid in 1..=PARTS {
            let idx = (pid - 1) as usize;
            // full read
            let read = |from: u64| -> Result<Vec<(u64, Vec<u8>)>, Failure> {
                let mut all = vec![];
                let mut at = from;
                loop {
                    let pm = node
                        .block_on(async { cl.poll_messages(&sid(), &tid(), Some(pid), &Consumer::new(Identifier::numeric(90).unwrap()), &PollingStrategy::offset(at), 200, false).await })
                        .map_err(|e| Failure::new("C04", "recovery-poll-fails", format!("{what}: poll(offset {at}) of partition {pid} failed: {e}")))?;
                    if pm.messages.is_empty() {
                        break;
                    }
                    if pm.messages[0].offset != at || all.len() > 100_000 {
                        return Err(Failure::new("C04", "recovered-log-has-gap-or-duplicate", format!(
                            "{what}: poll(offset {at}) of partition {pid} answered with offsets {:?}", pm.messages.iter().map(|m| m.offset).take(8).collect::<Vec<_>>())));
                    }
                    for m in &pm.messages {
                        all.push((m.offset, m.payload.to_vec()));
                    }
                    at = all.last().unwrap().0 + 1;
                }
                Ok(all)
            };
            let got = read(0)?;
            for (k, (o, _)) in got.iter().enumerate() {
                if *o != k as u64 {
                    return Err(Failure::new("C04", "recovered-log-has-gap-or-duplicate", format!("{what}: partition {pid} serves offsets {:?}", got.iter().map(|x| x.0).collect::<Vec<_>>())));
                }
            }
            // prefix of what was accepted - in the image's epoch, or (inside a purge) the neighbouring one
            let mut ok_epoch = None;
            for e in [im.epoch as usize, (im.epoch as usize).saturating_sub(1), im.epoch as usize + 1] {
                if let Some(m) = model.get(e) {
                    if got.len() <= m[idx].len() && got.iter().zip(m[idx].iter()).all(|(a, b)| &a.1 == b) {
                        ok_epoch = Some(e);
                        break;
                    }
                }
            }
            let Some(epoch) = ok_epoch else {
                return Err(Failure::new("C04", "recovered-log-not-a-prefix", format!(
                    "{what}: partition {pid} serves {} messages that are not a prefix of the {} accepted ones (first payload {:?})",
                    got.len(), model[im.epoch as usize][idx].len(), got.first().map(|g| short(&g.1)))));
            };
            if !case.cfg.no_wait && epoch == im.epoch as usize && (got.len() as u64) < im.durable[idx] {
                return Err(Failure::new("C04", "durable-messages-lost", format!(
                    "{what}: partition {pid} serves {} messages but {} had been persisted (log + index) under wait confirmation when the last completed op ended", got.len(), im.durable[idx])));
            }
            // consumer offsets: a value that was stored, or none; never beyond what is served
            for c in 1..=2u32 {
                let r = node.block_on(async { cl.get_consumer_offset(&Consumer::new(Identifier::numeric(c).unwrap()), &sid(), &tid(), Some(pid)).await });
                if let Ok(Some(info)) = r {
                    let known = stored.iter().any(|v| v.iter().any(|(cc, o)| *cc as u32 == c && *o == info.stored_offset));
                    if !known {
                        return Err(Failure::new("C04", "recovered-offset-never-stored", format!("{what}: consumer {c} on partition {pid} has offset {} which was never stored", info.stored_offset)));
                    }
                }
            }
            // known findings (masked = the post-recovery-send clauses are skipped for exactly these images):
            // KF-C04-1: a log batch without a (complete) index entry is neither dropped nor re-indexed at start-up
            if unindexed_tail && p.masked("KF-C04-1") {
                out.exclude("KF-C04-1");
                continue;
            }
            // KF-C04-2: a crash inside purge (segments deleted, replacement not yet created) leaves a partition without segments
            if im.kind == "segment_deleted" && p.masked("KF-C04-2") {
                out.exclude("KF-C04-2");
                continue;
            }
            // messages accepted after recovery continue at the next offset
            let base = got.len() as u64;
            let mut ms = vec![Message::new(None, Bytes::from_static(b"after-recovery-1"), None), Message::new(None, Bytes::from_static(b"after-recovery-2"), None)];
            node.block_on(async { cl.send_messages(&sid(), &tid(), &Partitioning::partition_id(pid), &mut ms).await })
                .map_err(|e| Failure::new("C04", "send-after-recovery-fails", format!("{what}: send to partition {pid} failed: {e}")))?;
            if case.cfg.no_wait {
                let _ = node.block_on(async { cl.flush_unsaved_buffer(&sid(), &tid(), pid, false).await });
                node.settle(10);
            }
            let again = read(0)?;
            let offs: Vec<u64> = again.iter().map(|x| x.0).collect();
            let want: Vec<u64> = (0..base + 2).collect();
            if offs != want {
                return Err(Failure::new("C04", "offsets-after-recovery", format!(
                    "{what}: partition {pid} served offsets 0..{base} after recovery; after two more sends it serves {:?} (expected 0..{})", offs, base + 2)));
            }
            if again[..base as usize] != got[..] || again[base as usize].1 != b"after-recovery-1" || again[base as usize + 1].1 != b"after-recovery-2" {
                return Err(Failure::new("C04", "content-after-recovery", format!("{what}: partition {pid}: content changed after post-recovery sends (an orphaned batch re-served?)")));
            }
        }
        let _ = node.block_on(async { cl.shutdown().await });
        Ok(())
    })();
    node.kill();
    let ps: Vec<_> = take_panics().into_iter().filter(is_repo_panic).collect();
    let r = r.map_err(tags);
    r?;
    if let Some(p) = ps.first() {
        return Err(tags(Failure::new("C04", "recovery-panics", format!("{what}: the recovered server panicked: {} at {}", p.message, p.location))));
    }
    Ok(())
}
