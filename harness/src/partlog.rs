//! `partlog` engine: histories of sends / polls / flushes / saves / restarts / purges /
//! retention passes on one topic, interpreted against the real server (over TCP with the
//! SDK client) and a reference model of each partition.

use crate::common::*;
use crate::msgs::{self, ModelMsg};
use crate::node::{self, Node, NodeCfg, StartError};
use crate::partlog_gen::*;
use crate::runner::{Engine, Params};
use iggy::client::{MessageClient, PartitionClient, StreamClient, SystemClient, TopicClient};
use iggy::compression::compression_algorithm::CompressionAlgorithm;
use iggy::consumer::Consumer;
use iggy::error::IggyError;
use iggy::identifier::Identifier;
use iggy::locking::IggySharedMutFn;
use iggy::messages::poll_messages::PollingStrategy;
use iggy::messages::send_messages::Partitioning;
use iggy::models::messages::PolledMessages;
use iggy::tcp::client::TcpClient;
use iggy::utils::byte_size::IggyByteSize;
use iggy::utils::duration::IggyDuration;
use iggy::utils::expiry::IggyExpiry;
use iggy::utils::timestamp::IggyTimestamp;
use iggy::utils::topic_size::MaxTopicSize;
use proptest::strategy::BoxedStrategy;
use std::collections::{BTreeMap, HashMap, HashSet};

pub struct Partlog;

const STREAM: u32 = 3; // stream, topic and partition ids deliberately differ from each other (1 / 1 / 1 hides swapped arguments)
const TOPIC: u32 = 2;

#[derive(Debug, Clone, Default)]
pub struct SegObs {
    pub start: u64,
    pub current: u64,
    pub closed: bool,
    pub unsaved: usize,
    pub size: u64,
    pub unsaved_bytes: u64,
}

#[derive(Debug, Default)]
struct MPart {
    /// every message accepted since creation / last purge; index == offset
    msgs: Vec<ModelMsg>,
    /// offsets below this were removed by retention
    first_retained: u64,
    seen: HashSet<u128>,
    /// consumer id -> stored offset
    offsets: HashMap<u32, u64>,
    /// set when an accepted send followed a restart
    appended_after_restart: bool,
    restarted: bool,
}

impl MPart {
    fn next(&self) -> u64 {
        self.msgs.len() as u64
    }
    fn retained(&self) -> u64 {
        self.next() - self.first_retained
    }
    fn current(&self) -> u64 {
        self.next().saturating_sub(1)
    }
}

pub struct Interp<'a> {
    p: &'a Params,
    case: &'a PCase,
    dir: ScratchDir,
    node: Option<Node>,
    client: Option<TcpClient>,
    /// flavour "http": every other send / poll goes through the SDK's HTTP client (JSON) instead of TCP
    http: Option<iggy::http::client::HttpClient>,
    http_turn: std::cell::Cell<u32>,
    cfg: NodeCfg,
    parts: Vec<MPart>,
    clock: u64,
    serial: u64,
    epoch: u128,
    expiry: ExpirySel,
    max_size: SizeSel,
    out: Outcome,
    key_map: HashMap<(Vec<u8>, usize), u32>,
    balanced_run: Vec<u32>,
    /// balanced sends refused with topic-full since the last balanced send that landed
    refused_balanced: u32,
    /// messages the sibling topic t2 (same stream) and the sibling stream s2 hold (0 = absent / purged)
    sib_topic_msgs: u64,
    sib_stream_msgs: u64,
    step: usize,
    /// payloads >= 8 bytes sent while encryption was on (C19 scan)
    enc_payloads: Vec<Vec<u8>>,
    /// after a restart under a wrong key the data is not expected to be readable
    wrong_key: bool,
    /// key setting the data was written under
    data_key: u8,
    sizes_before_restart: Option<(u64, Vec<u64>)>,
    events: u32,
    abort: bool,
}

fn sid() -> Identifier {
    Identifier::numeric(STREAM).unwrap()
}
fn tid() -> Identifier {
    Identifier::numeric(TOPIC).unwrap()
}

fn conn_lost(e: &IggyError) -> bool {
    matches!(
        e,
        IggyError::Disconnected
            | IggyError::NotConnected
            | IggyError::EmptyResponse
            | IggyError::TcpError
            | IggyError::ConnectionClosed
            | IggyError::CannotEstablishConnection
            | IggyError::ClientShutdown
            | IggyError::StaleClient
    )
}

impl<'a> Interp<'a> {
    fn new(case: &'a PCase, p: &'a Params) -> Interp<'a> {
        Interp {
            p,
            case,
            dir: ScratchDir::new("partlog"),
            node: None,
            client: None,
            http: None,
            http_turn: std::cell::Cell::new(0),
            cfg: case.cfg.clone(),
            parts: vec![],
            clock: node::CLOCK_BASE_US,
            serial: 0,
            epoch: 0,
            expiry: case.expiry.clone(),
            max_size: case.max_size.clone(),
            out: Outcome::default(),
            key_map: HashMap::new(),
            balanced_run: vec![],
            refused_balanced: 0,
            sib_topic_msgs: 0,
            sib_stream_msgs: 0,
            step: 0,
            enc_payloads: vec![],
            wrong_key: false,
            data_key: case.cfg.encryption,
            sizes_before_restart: None,
            events: 0,
            abort: false,
        }
    }

    fn focus(&self) -> &str {
        &self.p.property
    }
    /// the property a shared clause is attributed to in this run (None = clause inactive)
    fn attr(&self, owners: &[&str]) -> Option<String> {
        if owners.contains(&self.focus()) {
            Some(self.focus().to_string())
        } else {
            None
        }
    }
    fn fail(&self, prop: &str, clause: &str, detail: String) -> Failure {
        let mut f = Failure::new(prop, clause, format!("step {} ({:?}): {}", self.step, self.case.ops.get(self.step), detail));
        if self.cfg.no_wait {
            f = f.tag("cfg:no-wait");
        }
        f = f.tag(format!("cache:{}", node::CacheMode::from_env().as_str()));
        if let Some(op) = self.case.ops.get(self.step) {
            let name = format!("{:?}", op);
            let name = name.split(|c: char| !c.is_alphanumeric()).next().unwrap_or("").to_string();
            f = f.tag(format!("op:{name}"));
        }
        f
    }

    /// No-wait confirmation (8.1-10): "acknowledged => visible" is not promised, so
    /// before anything is read back the harness waits until the background persister
    /// has written what the server accounts as saved (log files on disk have reached
    /// size - unsaved bytes of every segment). Deadline 2 s; never a verdict by itself.
    fn quiesce_nowait(&mut self) {
        let _ = self.quiesce_nowait_for(2);
    }

    /// no-wait confirmation: wait until every segment's log file holds what the segment counts as saved
    /// (size minus still buffered bytes); false = not reached within `secs`
    fn quiesce_nowait_for(&mut self, secs: u64) -> bool {
        if !self.cfg.no_wait || self.node.is_none() {
            return true;
        }
        let deadline = std::time::Instant::now() + std::time::Duration::from_secs(secs);
        loop {
            let mut settled = true;
            let mut targets: Vec<(u32, u32, u32)> = (1..=self.parts.len() as u32).map(|p| (STREAM, TOPIC, p)).collect();
            if self.case.sibling_segs > 0 {
                targets.push((STREAM, TOPIC + 1, 1));
                if self.has_sibling_stream() {
                    targets.push((STREAM + 1, 1, 1));
                }
            }
            for (stream, topic, pid) in targets {
                for s in self.observe_at(stream, topic, pid) {
                    let want = s.size.saturating_sub(s.unsaved_bytes);
                    let f = self.dir.path.join(format!("streams/{stream}/topics/{topic}/partitions/{pid}/{:020}.log", s.start));
                    let have = std::fs::metadata(&f).map(|m| m.len()).unwrap_or(0);
                    if have < want {
                        settled = false;
                    }
                }
            }
            if settled {
                return true;
            }
            if std::time::Instant::now() > deadline {
                self.out.count("nowait_quiesce_timeouts", 1);
                return false;
            }
            self.node().settle(1);
        }
    }

    /// C16 cases with a sibling topic also get a sibling stream (the statistics then sum over two streams)
    fn has_sibling_stream(&self) -> bool {
        self.case.sibling_segs > 0 && self.focus() == "C16"
    }
    fn node(&self) -> &Node {
        self.node.as_ref().expect("node running")
    }
    fn cl(&self) -> &TcpClient {
        self.client.as_ref().expect("client")
    }

    fn eff_expiry_us(&self) -> Option<u64> {
        match self.expiry {
            ExpirySel::Never => None,
            ExpirySel::ServerDefault => self.cfg.default_expiry_us,
            ExpirySel::Us(u) => Some(u),
        }
    }
    fn iggy_expiry(e: &ExpirySel) -> IggyExpiry {
        match e {
            ExpirySel::Never => IggyExpiry::NeverExpire,
            ExpirySel::ServerDefault => IggyExpiry::ServerDefault,
            ExpirySel::Us(u) => IggyExpiry::ExpireDuration(IggyDuration::from(*u)),
        }
    }
    fn size_bytes(&self, s: &SizeSel) -> Option<Option<u64>> {
        // Some(None) = unlimited, Some(Some(b)) = limit, None = invalid (below one segment)
        match s {
            SizeSel::Unlimited => Some(None),
            SizeSel::ServerDefault => Some(self.cfg.default_max_topic_size),
            SizeSel::Segs(k) => Some(Some(self.cfg.segment_size * (*k).max(1) as u64)),
            SizeSel::Bytes(b) => {
                if *b < self.cfg.segment_size {
                    None
                } else {
                    Some(Some(*b))
                }
            }
        }
    }
    fn iggy_size(&self, s: &SizeSel) -> MaxTopicSize {
        match s {
            SizeSel::Unlimited => MaxTopicSize::Unlimited,
            SizeSel::ServerDefault => MaxTopicSize::ServerDefault,
            SizeSel::Segs(k) => MaxTopicSize::Custom(IggyByteSize::from(self.cfg.segment_size * (*k).max(1) as u64)),
            SizeSel::Bytes(b) => MaxTopicSize::Custom(IggyByteSize::from(*b)),
        }
    }

    /// panics recorded since the last call that come from server / sdk code
    fn server_panics(&self) -> Vec<PanicRecord> {
        take_panics().into_iter().filter(is_repo_panic).collect()
    }

    fn check_panics(&mut self, what: &str) -> Check {
        let ps = self.server_panics();
        if let Some(p) = ps.first() {
            let prop = self.focus().to_string();
            return Err(self
                .fail(&prop, "server-panic", format!("{what}: server panicked: {} at {}", p.message, p.location))
                .tag(format!("panic@{}", p.location)));
        }
        Ok(())
    }

    fn start_node(&mut self) -> Result<(), StartError> {
        node::set_clock(self.clock);
        if self.p.flavour == "http" {
            self.cfg.http = true;
            self.cfg.jwt_never_expire = true; // the JWT library checks `exp` against the real clock, the server's is frozen
        }
        let n = Node::start(&self.cfg, &self.dir.path)?;
        self.node = Some(n);
        Ok(())
    }

    fn connect(&mut self) -> Check {
        if let Some(c) = self.client.take() {
            let n = self.node();
            let _ = n.block_on(async { iggy::client::Client::shutdown(&c).await });
        }
        self.http = None;
        if self.p.flavour == "http" {
            match self.node().http_root() {
                Ok(h) => self.http = Some(h),
                Err(e) => {
                    let prop = self.focus().to_string();
                    return Err(self.fail(&prop, "cannot-connect", format!("root login over HTTP failed: {e}")));
                }
            }
        }
        match self.node().tcp_root() {
            Ok(c) => {
                self.client = Some(c);
                Ok(())
            }
            Err(e) => {
                let prop = self.focus().to_string();
                Err(self.fail(&prop, "cannot-connect", format!("root login over TCP failed: {e}")))
            }
        }
    }

    // ------------------------------------------------------------ observation (2.6)

    fn observe(&self, pid: u32) -> Vec<SegObs> {
        self.observe_topic(TOPIC, pid)
    }

    fn observe_topic(&self, topic_id: u32, pid: u32) -> Vec<SegObs> {
        self.observe_at(STREAM, topic_id, pid)
    }

    fn observe_at(&self, stream_id: u32, topic_id: u32, pid: u32) -> Vec<SegObs> {
        let n = self.node();
        n.block_on(async {
            let sys = n.system.read().await;
            let mut v = vec![];
            if let Ok(stream) = sys.get_stream(&Identifier::numeric(stream_id).unwrap()) {
                if let Ok(topic) = stream.get_topic(&Identifier::numeric(topic_id).unwrap()) {
                    if let Ok(part) = topic.get_partition(pid) {
                        let part = part.read().await;
                        for s in part.get_segments() {
                            v.push(SegObs {
                                start: s.start_offset,
                                current: s.current_offset,
                                closed: s.is_closed,
                                unsaved: s.unsaved_messages.as_ref().map(|a| a.unsaved_messages_count()).unwrap_or(0),
                                size: s.size_bytes.as_bytes_u64(),
                                unsaved_bytes: s
                                    .unsaved_messages
                                    .as_ref()
                                    .filter(|a| !a.is_empty())
                                    .map(|a| {
                                        use iggy::utils::sizeable::Sizeable;
                                        a.get_size_bytes().as_bytes_u64().saturating_sub(24)
                                    })
                                    .unwrap_or(0),
                            });
                        }
                    }
                }
            }
            v
        })
    }

    // ------------------------------------------------------------ raw operations

    /// flavour "http": true on every other call
    fn via_http(&self) -> bool {
        if self.http.is_none() {
            return false;
        }
        let t = self.http_turn.get();
        self.http_turn.set(t + 1);
        t % 2 == 0
    }

    fn raw_poll(&self, pid: u32, strat: &PollingStrategy, count: u32, consumer: u32, auto: bool) -> Result<PolledMessages, IggyError> {
        let c = Consumer::new(Identifier::numeric(consumer).unwrap());
        let n = self.node();
        if self.via_http() {
            let h = self.http.as_ref().unwrap();
            return n.block_on(async { h.poll_messages(&sid(), &tid(), Some(pid), &c, strat, count, auto).await });
        }
        n.block_on(async { self.cl().poll_messages(&sid(), &tid(), Some(pid), &c, strat, count, auto).await })
    }

    /// poll by offset, with the no-wait quiesce rule (8.1-10): under no-wait
    /// confirmation a short answer is re-read until it is complete or 3 s passed.
    fn poll_offset(&mut self, pid: u32, offset: u64, count: u32, want: usize) -> Result<PolledMessages, Failure> {
        self.quiesce_nowait();
        let deadline = std::time::Instant::now() + std::time::Duration::from_secs(3);
        loop {
            let r = self.raw_poll(pid, &PollingStrategy::offset(offset), count, 99, false);
            match r {
                Ok(pm) => {
                    if pm.messages.len() >= want || !self.cfg.no_wait || std::time::Instant::now() > deadline {
                        return Ok(pm);
                    }
                    self.node().settle(2);
                }
                Err(e) => {
                    self.check_panics("poll")?;
                    let prop = self.focus().to_string();
                    return Err(self.fail(&prop, "poll-error", format!("poll(offset {offset}, count {count}) on partition {pid} failed: {e}")));
                }
            }
        }
    }

    /// Full read of a partition from the model's earliest retained offset and
    /// element-wise comparison with the model. Owners: C01 C02 C03 C14 C16 C17 C18 C19.
    fn full_read_check(&mut self, pid: u32, why: &str) -> Check {
        let Some(prop) = self.attr(&["C01", "C02", "C03", "C14", "C15", "C16", "C17", "C18", "C19"]) else {
            return Ok(());
        };
        if self.wrong_key {
            return Ok(());
        }
        let idx = (pid - 1) as usize;
        let first = self.parts[idx].first_retained;
        let next = self.parts[idx].next();
        let mut at = first;
        let mut got = 0u64;
        let encrypted = self.cfg.encryption != 0;
        loop {
            let want = ((next - at).min(300)) as usize;
            let pm = self.poll_offset(pid, at, 300, want)?;
            // reported current offset (C01)
            let exp_cur = self.parts[idx].current();
            if pm.current_offset != exp_cur && !(next == 0 && pm.current_offset == 0) {
                return Err(self.fail(&prop, "current-offset", format!(
                    "{why}: partition {pid} reports current_offset {} but the last accepted message has offset {} ({} accepted since creation/purge)",
                    pm.current_offset, exp_cur, next)));
            }
            if pm.messages.is_empty() {
                break;
            }
            for m in &pm.messages {
                if at >= next {
                    return Err(self.fail(&prop, "full-read-extra", format!(
                        "{why}: partition {pid} serves offset {} (id {}) but only {} messages were accepted", m.offset, m.id, next)));
                }
                let mm = &mut self.parts[idx].msgs[at as usize];
                if let Err(d) = msgs::compare(m, at, mm, encrypted, true) {
                    return Err(self.fail(&prop, "full-read-mismatch", format!("{why}: partition {pid}: {d}")));
                }
                at += 1;
                got += 1;
            }
        }
        if at != next {
            let obs = self.observe(pid);
            return Err(self.fail(&prop, "full-read-short", format!(
                "{why}: partition {pid}: full read from offset {first} returned {got} messages and stopped at offset {at}, but offsets up to {} were accepted and retained; segments={:?}",
                next.saturating_sub(1), obs)));
        }
        Ok(())
    }

    fn all_full_reads(&mut self, why: &str) -> Check {
        for pid in 1..=self.parts.len() as u32 {
            self.full_read_check(pid, why)?;
        }
        Ok(())
    }
}

include!("partlog_ops.rs");
include!("partlog_ops2.rs");

impl Engine for Partlog {
    type Case = PCase;
    fn strategy(&self, p: &Params) -> BoxedStrategy<PCase> {
        case_strategy(p)
    }
    fn run(&self, case: &PCase, p: &Params) -> Outcome {
        let mut it = Interp::new(case, p);
        let r = it.run_case();
        let mut out = std::mem::take(&mut it.out);
        it.teardown();
        if let Err(f) = r {
            out.failure = Some(f);
        }
        out
    }
    /// KF-C03-1 can only arise when the harness does NOT save the buffers itself before a no-wait shutdown
    /// (the unmasked mode): the tag ties the finding's signature to that mode
    fn context_tags(&self, p: &Params) -> Vec<String> {
        if p.masked("KF-C03-1") {
            vec![]
        } else {
            vec!["shutdown:buffers-not-presaved".into()]
        }
    }
    fn rule(&self, p: &Params) -> String {
        rule_text(p)
    }
    fn assumptions(&self, _p: &Params) -> Vec<String> {
        vec![
            "server embedded in-process (System + TCP listener) on its own tokio runtime; restart = system.shutdown() then runtime drop, as main.rs".into(),
            "server clock frozen and advanced only by Advance ops (hook H2)".into(),
            "segment boundaries / closed flags are read from Partition::get_segments() for labels and for phrasing the closed-segment premise of C14/C15".into(),
            "message cache mode fixed per worker process (off/big/tiny)".into(),
            "under no-wait confirmation a short read is retried for up to 3 s before it counts".into(),
        ]
    }
    fn label_floor(&self, p: &Params) -> Vec<(&'static str, f64)> {
        match p.property.as_str() {
            "C02" => vec![("poll-spans-disk-and-buffer", 3.0), ("poll-multi-segment", 3.0), ("poll-after-restart-append", 3.0)],
            "C03" => vec![("restart-then-append-then-poll", 10.0)],
            _ => vec![],
        }
    }
}

#[allow(dead_code)]
fn _unused(_: BTreeMap<u8, u8>) {}
