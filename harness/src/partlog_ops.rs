// included into partlog.rs

const KEY_LENS: [usize; 12] = [1, 1, 2, 3, 4, 8, 16, 31, 64, 128, 254, 255];

fn key_bytes(k: u8) -> Vec<u8> {
    let len = KEY_LENS[(k as usize) % KEY_LENS.len()];
    let mut v = msgs::fill(0xABCD_0000 + k as u64, len);
    if k == 1 {
        v[0] = 0; // a key that is a single zero byte
    }
    v
}

impl<'a> Interp<'a> {
    fn setup(&mut self) -> Check {
        let prop = self.focus().to_string();
        if self.cfg.encryption == 3 {
            // encryption enabled with an unusable key from the very first start: the server must refuse to start
            // (if it starts nevertheless, the case goes on and is held to everything encryption promises)
            match self.start_node() {
                Err(_) => {
                    let _ = take_panics();
                    self.out.label("unusable-key-first-start-refused");
                    self.out.nontrivial = true;
                    self.abort = true;
                    return Ok(());
                }
                Ok(()) => {
                    self.out.label("server-started-with-unusable-key");
                }
            }
        } else if let Err(e) = self.start_node() {
            return Err(self.fail(&prop, "start-failed", format!("first start on an empty directory failed: {e:?}")));
        }
        self.connect()?;
        let n = self.node();
        let r = n.block_on(async { self.cl().create_stream("s1", Some(STREAM)).await });
        if let Err(e) = r {
            return Err(self.fail(&prop, "setup", format!("create_stream failed: {e}")));
        }
        // topic creation; a limit below one segment must be rejected (C15)
        let valid = self.size_bytes(&self.max_size.clone()).is_some();
        let ms = self.iggy_size(&self.max_size.clone());
        let ex = Self::iggy_expiry(&self.expiry);
        let parts = self.case.partitions;
        let r = n.block_on(async {
            self.cl().create_topic(&sid(), "t1", parts, CompressionAlgorithm::None, None, Some(TOPIC), ex, ms).await
        });
        match (r, valid) {
            (Ok(_), true) => {}
            (Err(e), true) => return Err(self.fail(&prop, "setup", format!("create_topic failed: {e}"))),
            (Ok(_), false) => {
                if let Some(pr) = self.attr(&["C15"]) {
                    return Err(self.fail(&pr, "limit-below-segment-accepted", format!(
                        "create_topic accepted max_topic_size {:?} although one segment is {} bytes", self.max_size, self.cfg.segment_size)));
                }
            }
            (Err(_), false) => {
                self.out.label("limit-below-segment-rejected");
                self.max_size = SizeSel::Unlimited;
                let ex = Self::iggy_expiry(&self.expiry);
                let n = self.node();
                let r = n.block_on(async {
                    self.cl().create_topic(&sid(), "t1", parts, CompressionAlgorithm::None, None, Some(TOPIC), ex, MaxTopicSize::Unlimited).await
                });
                if let Err(e) = r {
                    return Err(self.fail(&prop, "setup", format!("create_topic failed: {e}")));
                }
            }
        }
        for _ in 0..parts {
            self.parts.push(MPart::default());
        }
        // topics without partitions beside the topic under test (their emptiness must never matter)
        if self.case.empty_siblings {
            let n = self.node();
            let r = n.block_on(async {
                for t in [1u32, TOPIC + 5] {
                    self.cl().create_topic(&sid(), &format!("e{t}"), 0, CompressionAlgorithm::None, None, Some(t), IggyExpiry::NeverExpire, MaxTopicSize::Unlimited).await?;
                }
                for st in [1u32, 2, STREAM + 3, STREAM + 4] {
                    self.cl().create_stream(&format!("x{st}"), Some(st)).await?;
                    self.cl().create_topic(&Identifier::numeric(st).unwrap(), "e", 0, CompressionAlgorithm::None, None, Some(1), IggyExpiry::NeverExpire, MaxTopicSize::Unlimited).await?;
                }
                Ok::<(), IggyError>(())
            });
            if let Err(e) = r {
                return Err(self.fail(&prop, "setup", format!("topics without partitions: {e}")));
            }
            self.out.label("topics-without-partitions-beside");
        }
        // a sibling topic in the same stream, filled before the ops start (its content must never matter to t1)
        if self.case.sibling_segs > 0 {
            let total = (self.cfg.segment_size.saturating_mul(self.case.sibling_segs as u64)).min(4_000_000);
            let chunk = (self.cfg.segment_size / 2).clamp(16, 4000) as usize;
            let with_stream = self.has_sibling_stream();
            let n = self.node();
            let r = n.block_on(async {
                self.cl().create_topic(&sid(), "t2", 1, CompressionAlgorithm::None, None, Some(TOPIC + 1), IggyExpiry::NeverExpire, MaxTopicSize::Unlimited).await?;
                let mut targets = vec![(sid(), Identifier::numeric(TOPIC + 1).unwrap())];
                if with_stream {
                    let s2 = Identifier::numeric(STREAM + 1).unwrap();
                    self.cl().create_stream("s2", Some(STREAM + 1)).await?;
                    self.cl().create_topic(&s2, "u1", 1, CompressionAlgorithm::None, None, Some(1), IggyExpiry::NeverExpire, MaxTopicSize::Unlimited).await?;
                    targets.push((s2, Identifier::numeric(1).unwrap()));
                }
                let mut counts = vec![];
                for (i, (st, tp)) in targets.iter().enumerate() {
                    let mut sent = 0u64;
                    let mut k = 0u64;
                    // the sibling stream gets a different amount (an odd number of messages) than the sibling topic
                    let total = if i == 0 { total } else { total / 2 + chunk as u64 };
                    while sent < total {
                        let mut ms = vec![];
                        for _ in 0..(if i == 0 { 8 } else { 5 }) {
                            k += 1;
                            ms.push(iggy::messages::send_messages::Message::new(None, bytes::Bytes::from(msgs::fill(0x5151_0000 + k, chunk)), None));
                            sent += chunk as u64;
                        }
                        self.cl().send_messages(st, tp, &Partitioning::partition_id(1), &mut ms).await?;
                    }
                    counts.push(k);
                }
                Ok::<Vec<u64>, IggyError>(counts)
            });
            match r {
                Err(e) => return Err(self.fail(&prop, "setup", format!("sibling topic: {e}"))),
                Ok(c) => {
                    self.sib_topic_msgs = c[0];
                    self.sib_stream_msgs = c.get(1).copied().unwrap_or(0);
                }
            }
            self.out.label("sibling-topic-with-data");
            if with_stream {
                self.out.label("sibling-stream-with-data");
            }
        }
        Ok(())
    }

    pub fn teardown(&mut self) {
        if let Some(c) = self.client.take() {
            if let Some(n) = self.node.as_ref() {
                let _ = n.block_on(async { iggy::client::Client::shutdown(&c).await });
            }
        }
        if let Some(n) = self.node.take() {
            n.kill();
        }
        node::disarm_clock();
        server::verif::disarm_all();
        let _ = take_panics();
    }

    pub fn run_case(&mut self) -> Check {
        let _ = take_panics();
        for (name, ms) in &self.case.chaos {
            server::verif::arm_chaos(name, server::verif::ChaosAction::DelayMs(*ms), 1);
        }
        self.setup()?;
        if self.abort {
            return Ok(());
        }
        let ops = self.case.ops.clone();
        for (i, op) in ops.iter().enumerate() {
            self.step = i;
            self.out.steps += 1;
            self.exec(op)?;
            self.check_panics("after step")?;
            if self.abort {
                return Ok(());
            }
            if self.focus() == "C16" {
                self.counts_check("after step")?;
            }
        }
        self.step = ops.len();
        if !self.wrong_key {
            self.all_full_reads("end of case")?;
            if self.attr(&["C16"]).is_some() {
                self.counts_check("end of case")?;
                self.stats_check()?;
            }
            if self.attr(&["C19"]).is_some() {
                self.flush_all();
                self.at_rest_scan()?;
            }
        }
        self.check_panics("end of case")?;
        Ok(())
    }

    fn exec(&mut self, op: &POp) -> Check {
        match op {
            POp::Send { target, msgs } => self.op_send(target, msgs),
            POp::Poll { part, sel, count, consumer, auto_commit } => self.op_poll(*part, sel, *count, *consumer, *auto_commit),
            POp::Flush { part, fsync } => self.op_flush(*part, *fsync),
            POp::BgSave => self.op_bgsave(),
            POp::Restart { drop_index } => self.op_restart(*drop_index, None),
            POp::RestartKey(k) => self.op_restart(false, Some(*k)),
            POp::Purge { stream_level } => self.op_purge(*stream_level),
            POp::Advance { us } => {
                self.clock += *us;
                node::set_clock(self.clock);
                Ok(())
            }
            POp::Maintain => self.op_maintain(),
            POp::UpdateTopic { expiry, max_size } => self.op_update(expiry, max_size),
            POp::AddPartitions(n) => self.op_add_parts(*n),
            POp::DelPartitions(n) => self.op_del_parts(*n),
            POp::ReplaceParts(n) => self.op_replace_parts(*n),
        }
    }

    fn pid_of(&self, sel: u16) -> u32 {
        1 + pick(sel, self.parts.len()) as u32
    }

    fn topic_details(&mut self) -> Result<iggy::models::topic::TopicDetails, Failure> {
        let n = self.node();
        let r = n.block_on(async { self.cl().get_topic(&sid(), &tid()).await });
        let prop = self.focus().to_string();
        match r {
            Ok(Some(t)) => Ok(t),
            Ok(None) => Err(self.fail(&prop, "topic-vanished", "get_topic returned none for the live topic".into())),
            Err(e) => {
                self.check_panics("get_topic")?;
                Err(self.fail(&prop, "topic-vanished", format!("get_topic failed: {e}")))
            }
        }
    }

    // ------------------------------------------------------------ send

    fn op_send(&mut self, target: &Target, specs: &[msgs::MsgSpec]) -> Check {
        if self.wrong_key {
            return Ok(());
        }
        let nparts = self.parts.len();
        let prop = self.focus().to_string();
        // build messages
        let id_base: u128 = 1000 + self.epoch * 1000;
        let mut sdk_msgs = vec![];
        let mut model_msgs = vec![];
        for s in specs {
            self.serial += 1;
            let (m, mm) = msgs::build(s, self.serial, id_base, self.clock);
            sdk_msgs.push(m);
            model_msgs.push(mm);
        }
        // the SDK refuses a batch whose payloads exceed 10 MB (MAX_PAYLOAD_SIZE) or whose headers exceed 100 kB in
        // total before anything is sent: such a batch is not "a send" of the properties' domain - not issued
        let payload_total: u64 = sdk_msgs.iter().map(|m| m.payload.len() as u64).sum();
        let headers_total: u64 = sdk_msgs.iter().map(|m| m.headers.as_ref().map(|h| h.iter().map(|(k, v)| 4 + k.as_str().len() as u64 + 1 + 4 + v.value.len() as u64).sum::<u64>()).unwrap_or(0)).sum();
        if payload_total > 10_000_000 || headers_total > 100_000 {
            self.out.label("send-over-sdk-batch-limit-not-issued");
            self.serial -= specs.len() as u64;
            return Ok(());
        }
        let (partitioning, fixed_pid, bad) = match target {
            Target::Part(sel) => {
                let pid = self.pid_of(*sel);
                (Partitioning::partition_id(pid), Some(pid), false)
            }
            Target::BadPart(k) => {
                let pid = match k {
                    0 => 0,
                    1 => nparts as u32 + 1,
                    _ => u32::MAX,
                };
                (Partitioning::partition_id(pid), None, true)
            }
            Target::Key(k) => (Partitioning::messages_key(&key_bytes(*k)).unwrap(), None, false),
            Target::Balanced => (Partitioning::balanced(), None, false),
        };
        // C15: is the topic full right now (as the server itself reports it)?
        let mut expect_full = false;
        if self.focus() == "C15" {
            if let Some(Some(limit)) = self.size_bytes(&self.max_size.clone()) {
                let t = self.topic_details()?;
                if t.size.as_bytes_u64() >= limit {
                    expect_full = !self.cfg.delete_oldest;
                    self.out.label("send-while-full");
                    self.out.nontrivial = true;
                }
            }
        }
        let seg_before: Vec<usize> = (1..=nparts as u32).map(|p| self.observe(p).len()).collect();
        let size_before: Vec<u64> = (1..=nparts as u32).map(|p| self.observe(p).iter().map(|s| s.size).sum()).collect();
        let n = self.node();
        let over_http = self.via_http();
        let r = if over_http {
            let h = self.http.as_ref().unwrap();
            n.block_on(async { h.send_messages(&sid(), &tid(), &partitioning, &mut sdk_msgs).await })
        } else {
            n.block_on(async { self.cl().send_messages(&sid(), &tid(), &partitioning, &mut sdk_msgs).await })
        };
        if over_http {
            self.out.label("send-over-http");
            if self.focus() == "C13" && !specs.is_empty() {
                self.out.nontrivial = true;
            }
        }
        if let Err(e) = &r {
            if conn_lost(e) {
                self.check_panics("send")?;
                self.connect()?;
            }
        }
        self.check_panics("send")?;
        let accepted = r.is_ok();
        let err_txt = r.as_ref().err().map(|e| format!("{e} ({})", e.as_code())).unwrap_or_default();

        if specs.is_empty() {
            // an empty batch: must change nothing, either answer
            return self.unchanged_check("empty batch");
        }
        if bad {
            if accepted {
                if let Some(pr) = self.attr(&["C17", "C01"]) {
                    return Err(self.fail(&pr, "send-to-missing-partition-accepted", format!("send to {:?} was acknowledged", target)));
                }
            }
            self.out.label("send-to-missing-partition");
            return self.unchanged_check("send to a missing partition");
        }
        if self.focus() == "C15" {
            match (expect_full, &r) {
                (true, Ok(_)) => {
                    return Err(self.fail("C15", "full-topic-accepted-send", format!(
                        "topic is at/above its limit {:?} with delete_oldest_segments=false but the send was accepted", self.size_bytes(&self.max_size.clone()))).tag("gate"))
                }
                (true, Err(IggyError::TopicFull(_, _))) => {
                    if matches!(target, Target::Balanced) {
                        self.refused_balanced += 1;
                    }
                    return self.unchanged_check("topic full");
                }
                (true, Err(_)) => {
                    return Err(self.fail("C15", "full-topic-wrong-error", format!("expected a topic-full error, got {err_txt}")))
                }
                (false, Err(IggyError::TopicFull(_, _))) => {
                    return Err(self.fail("C15", "send-refused-although-not-full", format!(
                        "send refused with TopicFull although limit={:?} delete_oldest={} and the reported size was below the limit or deletion is enabled",
                        self.size_bytes(&self.max_size.clone()), self.cfg.delete_oldest)).tag("gate"))
                }
                _ => {}
            }
        }
        if !accepted {
            return Err(self.fail(&prop, "valid-send-refused", format!("a valid send ({} messages, {:?}) was refused: {err_txt}", specs.len(), target)));
        }

        // which partition took it? expected-if-target(p) accounts for per-partition dedup
        let mut landed: Option<u32> = None;
        let mut any_could_be_empty = false;
        let scan_deadline = std::time::Instant::now() + std::time::Duration::from_secs(3);
        loop {
            for pid in 1..=nparts as u32 {
                if let Some(f) = fixed_pid {
                    if f != pid && !matches!(self.focus(), "C17" | "C01") {
                        continue;
                    }
                }
                let idx = (pid - 1) as usize;
                let exp: Vec<usize> = self.expected_kept(idx, &model_msgs);
                if exp.is_empty() {
                    any_could_be_empty = true;
                }
                let next = self.parts[idx].next();
                let want = if fixed_pid == Some(pid) || landed == Some(pid) { exp.len() } else { 0 };
                let mut pm = self.poll_offset(pid, next, (model_msgs.len() + 2) as u32, want)?;
                if pm.messages.is_empty() {
                    continue;
                }
                if pm.messages.len() < exp.len() && self.cfg.no_wait {
                    // partially visible under no-wait: re-read until complete (8.1-10)
                    pm = self.poll_offset(pid, next, (model_msgs.len() + 2) as u32, exp.len())?;
                }
                if let Some(other) = landed {
                    if other != pid {
                        if let Some(pr) = self.attr(&["C17", "C01"]) {
                            return Err(self.fail(&pr, "send-stored-in-two-partitions", format!("one send grew partition {other} and partition {pid}")));
                        }
                    }
                }
                if let Some(f) = fixed_pid {
                    if f != pid {
                        if let Some(pr) = self.attr(&["C17", "C01"]) {
                            return Err(self.fail(&pr, "send-stored-in-wrong-partition", format!("send addressed to partition {f} grew partition {pid}")));
                        }
                    }
                }
                landed = Some(pid);
                // the new tail must be exactly the kept messages, in the order given (C01/C18)
                let encrypted = self.cfg.encryption != 0;
                if pm.messages.len() != exp.len() {
                    let pr = if self.cfg.dedup { self.attr(&["C18", "C01"]).unwrap_or(prop.clone()) } else { prop.clone() };
                    let ids: Vec<u128> = pm.messages.iter().map(|m| m.id).collect();
                    return Err(self.fail(&pr, "tail-after-send-count", format!(
                        "partition {pid}: after a send of {} messages (dedup {}), {} new messages are readable from offset {next} where {} were expected (ids read {:?}, ids sent {:?})",
                        model_msgs.len(), self.cfg.dedup, pm.messages.len(), exp.len(), ids, model_msgs.iter().map(|m| m.id).collect::<Vec<_>>())));
                }
                for (j, m) in pm.messages.iter().enumerate() {
                    let mut mm = model_msgs[exp[j]].clone();
                    if let Err(d) = msgs::compare(m, next + j as u64, &mut mm, encrypted, true) {
                        return Err(self.fail(&prop, "tail-after-send-mismatch", format!("partition {pid}: {d}")));
                    }
                }
            }
            if landed.is_some() || !self.cfg.no_wait || std::time::Instant::now() > scan_deadline {
                break;
            }
            // no-wait: a persisted batch may not be readable yet. The in-memory size
            // counters (observation only, 2.6) tell whether any partition took the send
            // at all; if none did, every message was a duplicate and there is nothing to wait for.
            let grew = (1..=nparts as u32).any(|p| self.observe(p).iter().map(|s| s.size).sum::<u64>() != size_before[(p - 1) as usize]);
            if !grew && any_could_be_empty {
                break;
            }
            self.node().settle(2);
        }
        let Some(pid) = landed else {
            if any_could_be_empty || fixed_pid.map(|f| self.expected_kept((f - 1) as usize, &model_msgs).is_empty()).unwrap_or(false) {
                self.out.label("send-all-duplicates");
                if matches!(target, Target::Balanced) {
                    // the send was accepted and took its turn in the rotation, but which partition it was is not observable
                    self.balanced_run.clear();
                }
                return self.unchanged_check("all messages were duplicates");
            }
            return Err(self.fail(&prop, "acked-send-not-stored", format!(
                "send of {} messages was acknowledged but no partition grew (no_wait={})", model_msgs.len(), self.cfg.no_wait)));
        };
        let idx = (pid - 1) as usize;
        let kept = self.expected_kept(idx, &model_msgs);
        // a batch above 2 MiB (one send, or several accumulated in the unsaved buffer): more than one file-layer write
        if kept.iter().map(|j| model_msgs[*j].payload.len() as u64).sum::<u64>() > 2 * 1024 * 1024 || self.observe(pid).iter().any(|s| s.unsaved_bytes > 2 * 1024 * 1024) {
            self.out.label("batch-over-2MiB");
        }
        if kept.len() < model_msgs.len() {
            self.out.label("dedup-drop");
            let first_of_batch: HashSet<u128> = HashSet::new();
            let _ = first_of_batch;
            // was a repeat separated from its first occurrence by an earlier batch / restart?
            for (j, mm) in model_msgs.iter().enumerate() {
                if !kept.contains(&j) {
                    if let Some(id) = mm.id {
                        if self.parts[idx].seen.contains(&id) {
                            self.out.label("dup-across-batches");
                            if self.parts[idx].restarted {
                                self.out.label("dup-after-restart");
                            }
                            if self.focus() == "C18" {
                                self.out.nontrivial = true;
                            }
                        }
                    }
                }
            }
        }
        if self.cfg.encryption != 0 {
            for j in &kept {
                if model_msgs[*j].payload.len() >= 8 {
                    self.enc_payloads.push(model_msgs[*j].payload.clone());
                }
            }
        }
        let had = self.parts[idx].next();
        for j in &kept {
            let mm = model_msgs[*j].clone();
            if let Some(id) = mm.id {
                self.parts[idx].seen.insert(id);
            }
            self.parts[idx].msgs.push(mm);
        }
        if self.parts[idx].restarted {
            self.parts[idx].appended_after_restart = true;
            self.out.label("append-after-restart");
        }
        // labels / non-triviality
        let seg_after = self.observe(pid).len();
        if seg_after != seg_before[idx] {
            self.out.label("roll-over");
            self.events |= 1;
        }
        if had > 0 && (self.events & 1 != 0 || self.events & 2 != 0) {
            if self.focus() == "C01" {
                self.out.nontrivial = true;
            }
            self.out.label("send-after-boundary");
        }
        if self.events & 4 != 0 {
            self.out.label("restart-then-append-then-poll");
            if self.focus() == "C03" {
                self.out.nontrivial = true;
            }
        }
        if self.events & 8 != 0 {
            self.out.label("append-after-retention-emptied-and-restart");
            if matches!(self.focus(), "C14" | "C01" | "C03") {
                self.out.nontrivial = true;
            }
        }
        // C17 bookkeeping
        match target {
            Target::Key(k) => {
                let key = key_bytes(*k);
                let e = self.key_map.get(&(key.clone(), nparts)).copied();
                match e {
                    Some(prev) if prev != pid => {
                        if let Some(pr) = self.attr(&["C17"]) {
                            return Err(self.fail(&pr, "key-partition-unstable", format!(
                                "key {} with {nparts} partitions went to partition {prev} earlier and to {pid} now", short(&key))));
                        }
                    }
                    Some(_) => {
                        self.out.label("key-reused");
                        if self.focus() == "C17" {
                            self.out.nontrivial = true;
                        }
                    }
                    None => {
                        self.key_map.insert((key, nparts), pid);
                    }
                }
            }
            Target::Balanced => {
                // C15: a send refused with topic-full changes nothing - not the rotation either: the first
                // balanced send accepted afterwards lands where the rotation stood before the refusals
                if self.refused_balanced > 0 {
                    if let Some(last) = self.balanced_run.last().copied() {
                        let exp = last % nparts as u32 + 1;
                        self.out.label("balanced-send-after-refused-balanced-sends");
                        if self.focus() == "C15" {
                            self.out.nontrivial = true;
                            if pid != exp {
                                return Err(self.fail("C15", "refused-send-advanced-rotation", format!(
                                    "the last accepted balanced send went to partition {last} of {nparts}; {} balanced send(s) were then refused with topic-full; the next accepted balanced send went to partition {pid} instead of {exp}: a refused send moved the rotation",
                                    self.refused_balanced)).tag("gate"));
                            }
                        }
                    }
                }
                self.refused_balanced = 0;
                self.balanced_run.push(pid);
                let w = nparts;
                if self.balanced_run.len() >= w {
                    let last: HashSet<u32> = self.balanced_run[self.balanced_run.len() - w..].iter().copied().collect();
                    if last.len() != w {
                        if let Some(pr) = self.attr(&["C17"]) {
                            return Err(self.fail(&pr, "balanced-not-rotating", format!(
                                "{w} consecutive balanced sends with {w} partitions hit partitions {:?}", &self.balanced_run[self.balanced_run.len() - w..])));
                        }
                    }
                    if w > 1 {
                        self.out.label("balanced-full-rotation");
                        if self.focus() == "C17" {
                            self.out.nontrivial = true;
                        }
                    }
                }
            }
            _ => {}
        }
        self.full_read_check(pid, "after accepted send")
    }

    /// indices of the batch that a partition keeps (dedup model, C18)
    fn expected_kept(&self, idx: usize, batch: &[ModelMsg]) -> Vec<usize> {
        if !self.cfg.dedup {
            return (0..batch.len()).collect();
        }
        let mut seen_in_batch: HashSet<u128> = HashSet::new();
        let mut out = vec![];
        for (j, m) in batch.iter().enumerate() {
            match m.id {
                None => out.push(j),
                Some(id) => {
                    if self.parts[idx].seen.contains(&id) || seen_in_batch.contains(&id) {
                        continue;
                    }
                    seen_in_batch.insert(id);
                    out.push(j);
                }
            }
        }
        out
    }

    /// after a refused / no-op send: every partition still ends where the model says
    fn unchanged_check(&mut self, why: &str) -> Check {
        let prop = self.focus().to_string();
        for pid in 1..=self.parts.len() as u32 {
            let idx = (pid - 1) as usize;
            let next = self.parts[idx].next();
            let pm = self.poll_offset(pid, next, 5, 0)?;
            if !pm.messages.is_empty() {
                return Err(self.fail(&prop, "refused-send-stored", format!(
                    "{why}: partition {pid} grew by {} message(s) although the send was refused / empty / all duplicates", pm.messages.len())));
            }
            let exp_cur = self.parts[idx].current();
            if pm.current_offset != exp_cur {
                return Err(self.fail(&prop, "refused-send-moved-offset", format!(
                    "{why}: partition {pid} current_offset {} where {} expected", pm.current_offset, exp_cur)));
            }
        }
        Ok(())
    }

    // ------------------------------------------------------------ flush / save

    fn op_flush(&mut self, part: u16, fsync: bool) -> Check {
        if self.wrong_key {
            return Ok(());
        }
        let pid = self.pid_of(part);
        let unsaved: usize = self.observe(pid).iter().map(|s| s.unsaved).sum();
        let n = self.node();
        let r = n.block_on(async { self.cl().flush_unsaved_buffer(&sid(), &tid(), pid, fsync).await });
        self.check_panics("flush")?;
        if let Err(e) = r {
            let prop = self.focus().to_string();
            return Err(self.fail(&prop, "flush-failed", format!("flush_unsaved_buffer failed: {e}")));
        }
        if unsaved > 0 {
            self.out.label("flush-nonempty-buffer");
            self.events |= 2;
        }
        self.full_read_check(pid, "after flush")
    }

    fn flush_all(&mut self) {
        let n = self.node();
        for pid in 1..=self.parts.len() as u32 {
            let _ = n.block_on(async { self.cl().flush_unsaved_buffer(&sid(), &tid(), pid, false).await });
        }
        if self.cfg.no_wait {
            n.settle(30);
        }
    }

    fn op_bgsave(&mut self) -> Check {
        if self.wrong_key {
            return Ok(());
        }
        let unsaved: usize = (1..=self.parts.len() as u32).map(|p| self.observe(p).iter().map(|s| s.unsaved).sum::<usize>()).sum();
        let r = self.node().background_save();
        self.check_panics("background save")?;
        if let Err(e) = r {
            let prop = self.focus().to_string();
            return Err(self.fail(&prop, "bgsave-failed", format!("persist_messages failed: {e}")));
        }
        if unsaved > 0 {
            self.out.label("bgsave-nonempty-buffer");
            self.events |= 2;
        }
        self.all_full_reads("after background save")
    }
}
