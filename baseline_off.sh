#!/bin/bash
# Runs the repository's pinned test suite with the verification guard OFF (no feature
# flags are passed, so iggy_verif is not compiled in). Prints a pass/fail summary and
# compares against /root/.vp/BASELINE.json (every stable-pass test must still pass).
set -u
REPO_DIR=${1:-/repo}
cd "$REPO_DIR" || exit 2
TGT=${CARGO_TARGET_DIR:-$REPO_DIR/target}
LOG=${BASELINE_LOG:-/verif/target/baseline_off.log}
export CARGO_NET_OFFLINE=true
[ -f /w/out/rust_env.sh ] && . /w/out/rust_env.sh
if [ -f /w/lib/nextest.toml ]; then
  cargo nextest run --workspace --no-fail-fast --tool-config-file pb:/w/lib/nextest.toml --profile pb --test-threads 8 --offline > "$LOG" 2>&1
  J=$TGT/nextest/pb/junit.xml
else
  cargo nextest run --workspace --no-fail-fast --test-threads 8 --offline > "$LOG" 2>&1
  J=""
fi
python3 - "$J" <<'PY'
import json,sys,re,xml.etree.ElementTree as ET
base=json.load(open('/root/.vp/BASELINE.json'))
stable=set(base['stable_pass'])
passed=set()
j=sys.argv[1]
try:
    root=ET.parse(j).getroot()
    for ts in root.iter('testsuite'):
        for tc in ts.iter('testcase'):
            ok = tc.find('failure') is None and tc.find('error') is None and tc.find('skipped') is None
            name=f"{tc.get('classname')}::{tc.get('name')}"
            if ok: passed.add(name)
except Exception as e:
    print("cannot parse junit:",e); sys.exit(2)
# BASELINE names look like 'crate::bin/x::path' - match on suffix-insensitive form
def norm(n): return n.replace('::bin/','::').replace('$','::')
pn={norm(p) for p in passed}
missing=[s for s in stable if norm(s) not in pn and s not in passed]
print(f"passed={len(passed)} stable_baseline={len(stable)} stable_missing={len(missing)}")
for m in missing[:40]: print("MISSING", m)
sys.exit(1 if missing else 0)
PY
